(* FsModel.v — a small POSIX file-system model and a thread scheduler (DESIGN.md §4).

   The guarantees the code of C10 relies on, as an executable model:
     - a DIRECTORY maps paths to inode ids; an INODE holds (bytes, mode);
     - open(O_CREAT|O_EXCL) fails when the name exists, otherwise links a FRESH inode (mode given);
     - write through a descriptor appends to THAT inode, whatever names point to it;
     - rename(from, to) is ONE atomic directory switch: [to] now names the inode of [from], [from] is
       gone; the inode previously named by [to] is not touched and stays alive (the table never
       forgets an inode), so a holder of a descriptor keeps reading it;
     - open returns the inode id: later reads see that inode's current bytes;
     - chmod changes the mode of the inode a path names, unlink removes a name.
   These are assumptions about the kernel (DESIGN §7); the strace leg of C10 validates that the
   real extraction uses exactly these calls.

   Paths are (directory, file name) pairs of byte strings, so "same directory" and "temp-file name"
   are plain tests.  Temp files are those whose NAME starts with [tmp_prefix] (tempfile's default
   prefix, `NamedTempFile::new_in(dir)`).

   Scheduler: a thread is a local state and a list of atomic actions over the shared state; a schedule
   is a list of thread numbers; [exec] interprets it; the number of a finished (or non-existent)
   thread is a stutter step.  No proofs here (Proofs/FsModel.v). *)
From Coq Require Import List NArith Bool.
From Sccache Require Import Base.Sx.
Import ListNotations.
Local Open Scope N_scope.

Definition bytes := list N.
Definition path := (bytes * bytes)%type.          (* (directory, file name) *)
Definition ino := N.

Definition path_eqb (a b : path) : bool := bytes_eqb (fst a) (fst b) && bytes_eqb (snd a) (snd b).

(* ---------- temp-file names ---------- *)

Definition tmp_prefix : bytes := [46; 116; 109; 112].          (* ".tmp" *)

Fixpoint is_prefix (p l : bytes) : bool :=
  match p, l with
  | [], _ => true
  | x :: p', y :: l' => N.eqb x y && is_prefix p' l'
  | _ :: _, [] => false
  end.

Definition is_tmp (p : path) : bool := is_prefix tmp_prefix (snd p).

(* the temp file made next to [p] with the random part [sfx] *)
Definition tmp_of (p : path) (sfx : bytes) : path := (fst p, tmp_prefix ++ sfx).

Definition tmp_mode : N := 384.                                  (* 0o600 *)

(* ---------- association lists ---------- *)

Section Alist.
  Context {K V : Type} (eqb : K -> K -> bool).
  Fixpoint aget (k : K) (l : list (K * V)) : option V :=
    match l with
    | [] => None
    | (k', v) :: r => if eqb k k' then Some v else aget k r
    end.
  Fixpoint adel (k : K) (l : list (K * V)) : list (K * V) :=
    match l with
    | [] => []
    | (k', v) :: r => if eqb k k' then adel k r else (k', v) :: adel k r
    end.
  Definition aset (k : K) (v : V) (l : list (K * V)) : list (K * V) := (k, v) :: adel k l.
End Alist.

(* ---------- the file system ---------- *)

Record inode := mkInode { i_bytes : bytes; i_mode : N }.

Record fs := mkFs {
  dir : list (path * ino);
  inodes : list (ino * inode);
  next_ino : ino;
}.

Definition lookup (p : path) (f : fs) : option ino := aget path_eqb p (dir f).
Definition iget (i : ino) (f : fs) : option inode := aget N.eqb i (inodes f).

Definition bytes_of (f : fs) (i : ino) : option bytes :=
  match iget i f with Some n => Some (i_bytes n) | None => None end.

(* what open+read of a path returns *)
Definition content (f : fs) (p : path) : option bytes :=
  match lookup p f with Some i => bytes_of f i | None => None end.

Definition mode_at (f : fs) (p : path) : option N :=
  match lookup p f with
  | Some i => match iget i f with Some n => Some (i_mode n) | None => None end
  | None => None
  end.

(* open(O_CREAT|O_EXCL, mode): None = EEXIST *)
Definition create_excl (p : path) (m : N) (f : fs) : option (fs * ino) :=
  match lookup p f with
  | Some _ => None
  | None =>
      let i := next_ino f in
      Some (mkFs (aset path_eqb p i (dir f)) (aset N.eqb i (mkInode [] m) (inodes f)) (i + 1), i)
  end.

(* NamedTempFile::new_in: a temp-named file of mode 0600 *)
Definition create_tmp (t : path) (f : fs) : option (fs * ino) := create_excl t tmp_mode f.

(* write(fd, b): append to the inode behind the descriptor *)
Definition write_chunk (i : ino) (b : bytes) (f : fs) : fs :=
  match iget i f with
  | Some n => mkFs (dir f) (aset N.eqb i (mkInode (i_bytes n ++ b) (i_mode n)) (inodes f)) (next_ino f)
  | None => f
  end.

(* rename(from, to): None = ENOENT.  The inode [to] named before is left alone. *)
Definition rename (from to : path) (f : fs) : option fs :=
  match lookup from f with
  | None => None
  | Some i => Some (mkFs (aset path_eqb to i (adel path_eqb from (dir f))) (inodes f) (next_ino f))
  end.

Definition unlink (p : path) (f : fs) : fs := mkFs (adel path_eqb p (dir f)) (inodes f) (next_ino f).

Definition chmod (p : path) (m : N) (f : fs) : fs :=
  match lookup p f with
  | Some i =>
      match iget i f with
      | Some n => mkFs (dir f) (aset N.eqb i (mkInode (i_bytes n) m) (inodes f)) (next_ino f)
      | None => f
      end
  | None => f
  end.

(* a plain file system to start from: files with their bytes and modes, inode numbers 0,1,2,… *)
Fixpoint mk_fs_from (files : list (path * (bytes * N))) (n : ino) : fs :=
  match files with
  | [] => mkFs [] [] n
  | (p, (b, m)) :: r =>
      let f := mk_fs_from r (n + 1) in
      mkFs ((p, n) :: adel path_eqb p (dir f)) ((n, mkInode b m) :: inodes f) (next_ino f)
  end.

(* well-formed: every name points below [next_ino], to an existing inode; every inode number is below [next_ino] *)
Definition fs_okb (f : fs) : bool :=
  forallb (fun e => (snd e <? next_ino f) && match iget (snd e) f with Some _ => true | None => false end) (dir f)
  && forallb (fun e => fst e <? next_ino f) (inodes f).

(* ---------- threads and schedules ---------- *)

Section Sched.
  Context {St Loc Act : Type} (act : Act -> St -> Loc -> St * Loc).

  Definition thread := (Loc * list Act)%type.

  Definition step_thread (s : St) (t : thread) : St * thread :=
    match t with
    | (l, []) => (s, t)                                 (* finished: stutter *)
    | (l, a :: rest) => let '(s', l') := act a s l in (s', (l', rest))
    end.

  Fixpoint step_nth (n : nat) (s : St) (ts : list thread) : St * list thread :=
    match ts with
    | [] => (s, [])                                      (* no such thread: stutter *)
    | t :: r =>
        match n with
        | O => let '(s', t') := step_thread s t in (s', t' :: r)
        | S n' => let '(s', r') := step_nth n' s r in (s', t :: r')
        end
    end.

  Definition exec (sched : list nat) (st : St * list thread) : St * list thread :=
    fold_left (fun st tid => step_nth tid (fst st) (snd st)) sched st.
End Sched.
