(* RoCache.v — executable model of sccache's local DiskCache (src/cache/disk.rs) at the level of
   the Storage trait, with its read-only mode (rw_mode, src/cache/readonly.rs wrapper).

   A DiskCache owns TWO lazily opened LruDiskCache stores over ONE directory tree:
     - the result store over the cache root (its init walks the WHOLE tree, including the nested
       `preprocessor/` subtree — S18, modelled as the code does it);
     - the preprocessor-cache store over `root/preprocessor`.
   Both are `Lru.st` values of Model/Lru.v (imported, never copied); the files map and the logical
   clock are shared: before every store operation the store sees the current disk, afterwards the
   disk is what the store left.  Keys of BOTH stores are paths relative to the cache root (the
   preprocessor store's keys carry the `preprocessor/` prefix; the real store's keys are relative
   to its own root, which is the same thing).

   Opening a store:
     read-write : Lru.init_add over the walked files, oldest first (deletes temp files and
                  oversized files, evicts-and-deletes to fit the capacity);
     read-only  : LruDiskCache::new_read_only — indexes what fits, deletes and creates NOTHING
                  (fix for S12: before it, read-only mode used the read-write open).
   Contents: every file also has a content id (conts); directories are tracked (dirs). *)
From Coq Require Import List NArith Bool.
From Sccache Require Import Base.Sx Model.Lru.
Import ListNotations.
Local Open Scope N_scope.

Definition fmap := list (key * (N * N)).          (* rel path -> (size, mtime) *)

Definition with_env (s : st) (fs : fmap) (clk : N) : st :=
  {| cap := cap s; index := index s; measure := measure s; pending := pending s;
     pending_size := pending_size s; files := fs; handles := handles s;
     next_h := next_h s; clock := clk |}.

Definition fresh (c : N) (fs : fmap) (clk : N) : st := with_env (empty c) fs clk.

(* ---------- paths ---------- *)

Definition pp_dir : key := [112; 114; 101; 112; 114; 111; 99; 101; 115; 115; 111; 114].   (* "preprocessor" *)
Definition pp_prefix : key := pp_dir ++ [47].

(* disk.rs make_key_path: k[0]/k[1]/k *)
Definition main_path (k : key) : key :=
  firstn 1 k ++ [47] ++ firstn 1 (skipn 1 k) ++ [47] ++ k.

(* cache.rs normalize_key: k[0]/k[1]/k[2]/k, under root/preprocessor *)
Definition pp_path (k : key) : key :=
  pp_prefix ++ firstn 1 k ++ [47] ++ firstn 1 (skipn 1 k) ++ [47] ++ firstn 1 (skipn 2 k) ++ [47] ++ k.

Definition under_pp (p : key) : bool := starts_with pp_prefix p.

(* directories that create_dir_all(parent of p) makes sure exist *)
Fixpoint ancestors_aux (pre rest : list N) : list key :=
  match rest with
  | [] => []
  | c :: r => if c =? 47 then pre :: ancestors_aux (pre ++ [c]) r else ancestors_aux (pre ++ [c]) r
  end.
Definition ancestors (p : key) : list key := ancestors_aux [] p.

Definition dset := list (key * unit).
Definition add_dirs (l : list key) (ds : dset) : dset := fold_left (fun acc p => ains p tt acc) l ds.

(* ---------- opening a store ---------- *)

(* which = false: result store (walks everything); which = true: preprocessor store *)
Definition sel_of (which : bool) (p : key) : bool := if which then under_pp p else true.

Definition walked (which : bool) (fs : fmap) : fmap :=
  sort_mtime (filter (fun e => sel_of which (fst e)) fs).

(* LruDiskCache::new (read-write): Lru.init_add per walked file *)
Definition open_rw (which : bool) (c : N) (fs : fmap) (clk : N) : st :=
  fold_left init_add (walked which fs) (fresh c fs clk).

(* LruDiskCache::new_read_only: skip temp files and files larger than the capacity, index the rest
   with LruCache::insert (whose trailing loop drops the least recently used index entries once
   the capacity is exceeded — their files stay) *)
Definition ro_init_add (s : st) (e : key * (N * N)) : st :=
  let '(k, (sz, _)) := e in
  if is_temp k then s
  else if negb (sz <=? cap s) then s
  else lru_insert s k sz.

Definition open_ro (which : bool) (c : N) (fs : fmap) (clk : N) : st :=
  fold_left ro_init_add (walked which fs) (fresh c fs clk).

(* ---------- DiskCache ---------- *)

Record dc := {
  rw : bool;                    (* rw_mode = ReadWrite *)
  wrapped : bool;               (* behind ReadOnlyStorage (server: iff check() = ReadOnly) *)
  dcap : N;                     (* max_size, used for both stores *)
  ppsz : N;                     (* encoded size of the preprocessor-cache entry being stored *)
  main : option st;             (* LazyDiskCache: None = Uninit *)
  pp : option st;
  fs : fmap;
  conts : list (key * N);       (* content id of every file *)
  dirs : dset;
  clk : N
}.

Definition store_of (which : bool) (d : dc) : option st := if which then pp d else main d.

(* put the store back and take over the disk as it left it *)
Definition set_store (which : bool) (d : dc) (s : st) : dc :=
  {| rw := rw d; wrapped := wrapped d; dcap := dcap d; ppsz := ppsz d;
     main := if which then main d else Some s;
     pp := if which then Some s else pp d;
     fs := files s; conts := conts d; dirs := dirs d; clk := clock s |}.

Definition set_meta (d : dc) (cs : list (key * N)) (ds : dset) : dc :=
  {| rw := rw d; wrapped := wrapped d; dcap := dcap d; ppsz := ppsz d; main := main d; pp := pp d;
     fs := fs d; conts := cs; dirs := ds; clk := clk d |}.

(* get_or_init: the store as it sees the current disk *)
Definition opened (which : bool) (d : dc) : dc * st :=
  match store_of which d with
  | Some s => (d, with_env s (fs d) (clk d))
  | None =>
      if rw d then
        let s := open_rw which (dcap d) (fs d) (clk d) in
        let d1 := set_store which d s in
        (set_meta d1 (conts d1) (add_dirs (if which then [pp_dir] else []) (dirs d1)), s)
      else
        let s := open_ro which (dcap d) (fs d) (clk d) in
        (set_store which d s, s)
  end.

Inductive out1 :=
| OHit | OMiss | OErr | OFound | ONone | OOk | ORefusedWrapper | ORefusedCache
| ORestarted | OPreprocessFailed | OCompileFailed.

(* smallest well-formed entry (an empty zip); shorter files make CacheRead::from fail *)
Definition min_entry : N := 22.

Definition do_get (d : dc) (k : key) : dc * out1 :=
  let '(d1, s) := opened false d in
  let p := main_path k in
  let '(s', r, _) := get s p in
  let d2 := set_store false d1 s' in
  (d2, match r with
       | ROk => match alookup p (fs d2) with
                | Some (sz, _) => if sz <? min_entry then OErr else OHit
                | None => OErr
                end
       | RNotInCache => OMiss
       | _ => OErr
       end).

Definition do_ppget (d : dc) (k : key) : dc * out1 :=
  let '(d1, s) := opened true d in
  let '(s', r, _) := get s (pp_path k) in
  (set_store true d1 s', match r with ROk => OFound | _ => ONone end).

Definition record_write (d : dc) (p : key) (cid : N) : dc :=
  set_meta d (ains p cid (conts d)) (add_dirs (ancestors p) (dirs d)).

(* prepare_add(reserve) ; write `written` bytes ; commit *)
Definition store_put (which : bool) (d : dc) (p : key) (reserve written cid : N) : dc * out1 :=
  let '(d1, s) := opened which d in
  let h := next_h s in
  let '(s1, r1) := prepare_add s p reserve in
  match r1 with
  | ROk =>
      let '(s2, _) := write_tmp s1 h written in
      let '(s3, r3, _) := commit s2 h in
      let d2 := set_store which d1 s3 in
      match r3 with
      | ROk => (record_write d2 p cid, OOk)
      | _ => (d2, OErr)
      end
  | _ => (set_store which d1 s1, OErr)
  end.

Definition do_put (d : dc) (k : key) (size cid : N) : dc * out1 :=
  if wrapped d then (d, ORefusedWrapper)
  else if negb (rw d) then (d, ORefusedCache)
  else store_put false d (main_path k) size size cid.

Definition do_ppput (d : dc) (k : key) : dc * out1 :=
  if wrapped d then (d, ORefusedWrapper)
  else if negb (rw d) then (d, ORefusedCache)
  else store_put true d (pp_path k) 0 (ppsz d) 0.

(* a new server over the same directory *)
Definition restart (d : dc) (rw' wr' : bool) (c : N) : dc :=
  {| rw := rw'; wrapped := wr'; dcap := c; ppsz := ppsz d; main := None; pp := None;
     fs := fs d; conts := conts d; dirs := dirs d; clk := clk d |}.

Inductive op :=
| Get (k : key)
| Put (k : key) (size cid : N)
| PpGet (k : key)
| PpPut (k : key)
| Restart (rw' wr' : bool) (c : N).

Definition step (d : dc) (o : op) : dc * out1 :=
  match o with
  | Get k => do_get d k
  | Put k n c => do_put d k n c
  | PpGet k => do_ppget d k
  | PpPut k => do_ppput d k
  | Restart r w c => (restart d r w c, ORestarted)
  end.

Definition run (d : dc) (ops : list op) : dc := fold_left (fun d o => fst (step d o)) ops d.

(* ---------- one compile request = a short, adaptive list of storage calls ----------
   (order of compiler/c.rs generate_hash_key + compiler/compiler.rs get_cached_or_compile) *)
Record req := {
  r_key : key; r_ppkey : key; r_size : N; r_cid : N;
  r_pp_on : bool;         (* preprocessor cache mode applies to this request *)
  r_recache : bool;       (* SCCACHE_RECACHE *)
  r_pp_match : bool;      (* a stored manifest, if found, matches the headers (C04's business) *)
  r_pp_updated : bool;    (* lookup_result_digest asked for the manifest to be rewritten *)
  r_preproc_ok : bool;
  r_compile_ok : bool
}.

Definition req_finish (d : dc) (r : req) (acc : list out1) : dc * list out1 :=
  let '(d1, acc1, served) :=
    if r_recache r then (d, acc, false)
    else let '(d', o) := step d (Get (r_key r)) in
         (d', acc ++ [o], match o with OHit => true | _ => false end) in
  if served then (d1, acc1)
  else if negb (r_compile_ok r) then (d1, acc1 ++ [OCompileFailed])
  else let '(d2, o) := step d1 (Put (r_key r) (r_size r) (r_cid r)) in (d2, acc1 ++ [o]).

Definition req_preprocess (d : dc) (r : req) (acc : list out1) : dc * list out1 :=
  if negb (r_preproc_ok r) then (d, acc ++ [OPreprocessFailed])
  else if r_pp_on r then
    let '(d1, o) := step d (PpPut (r_ppkey r)) in req_finish d1 r (acc ++ [o])
  else req_finish d r acc.

Definition do_req (d : dc) (r : req) : dc * list out1 :=
  if r_pp_on r && negb (r_recache r) then
    let '(d1, o1) := step d (PpGet (r_ppkey r)) in
    match o1 with
    | OFound =>
        let '(d2, acc, update_failed) :=
          if r_pp_updated r then
            let '(d', o2) := step d1 (PpPut (r_ppkey r)) in
            (d', [o1; o2], match o2 with OOk => false | _ => true end)
          else (d1, [o1], false) in
        if negb update_failed && r_pp_match r then req_finish d2 r acc
        else req_preprocess d2 r acc
    | _ => req_preprocess d1 r [o1]
    end
  else req_preprocess d r [].

Inductive item := IOp (o : op) | IReq (r : req).

Definition step_item (d : dc) (i : item) : dc * list out1 :=
  match i with
  | IOp o => let '(d', x) := step d o in (d', [x])
  | IReq r => do_req d r
  end.

Definition run_items (d : dc) (l : list item) : dc := fold_left (fun d i => fst (step_item d i)) l d.

Fixpoint trace_items (d : dc) (l : list item) : list (list out1 * dc * dc) :=
  match l with
  | [] => []
  | i :: r => let '(d', x) := step_item d i in (x, d, d') :: trace_items d' r
  end.

(* ---------- what "unchanged" means ---------- *)

Definition cont_of (d : dc) (p : key) : N :=
  match alookup p (conts d) with Some c => c | None => 0 end.

(* the directory tree as a map path -> (size, content id); mtimes are not content *)
Definition entry (d : dc) (p : key) : option (N * N) :=
  match alookup p (fs d) with
  | Some (sz, _) => Some (sz, cont_of d p)
  | None => None
  end.

Definition total_size (l : fmap) : N := fold_right (fun e a => fst (snd e) + a) 0 l.

(* only read-only configurations appear in the history *)
Definition ro_op (o : op) : bool :=
  match o with Restart r _ _ => negb r | _ => true end.
Definition ro_item (i : item) : bool :=
  match i with IOp o => ro_op o | IReq _ => true end.

(* a DiskCache as storage_from_config + start_server set it up over an existing directory *)
Definition start (rw' : bool) (c psz : N) (fs0 : fmap) (cs : list (key * N)) (ds : dset) (clk0 : N) : dc :=
  {| rw := rw'; wrapped := negb rw'; dcap := c; ppsz := psz; main := None; pp := None;
     fs := fs0; conts := cs; dirs := ds; clk := clk0 |}.
