(* Model/PpTimeline.v — WHEN the compile start instant is taken: the event order of the slow path of the direct-mode
   prelude (generate_hash_key, src/compiler/c.rs) with an environment that may write or delete any file at any
   moment.

   The program performs, in SOURCE ORDER (Gen/C04Consts.v `prelude_order`, transcribed by the translator):
       0  let start_of_compilation = SystemTime::now()
       1  compiler.preprocess(..)           the preprocessor opens and reads the input and the headers, one by one
       2  process_preprocessed_file(.., start_of_compilation, ..) / add_result(start_of_compilation, ..)
                                            = the include recorder of Model/PpCache.v on the file system as it is THEN
   A trace is a time-stamped list of these code actions interleaved with environment actions; time stamps never
   decrease (they may be equal: clock granularity - that is why the guard is `>=`).  A write sets the ctime of the
   file to the time of the write (the mtime is whatever the writer likes: tar, touch -d, cp -p). *)
From Coq Require Import List NArith Bool.
From Sccache Require Import Base.Sx Gen.C04Consts Model.PpPaths Model.TimeMacro Model.PpCache.
Import ListNotations.
Local Open Scope N_scope.

Inductive envw :=
| WFile (p : path) (b : bytes) (mtime : N)      (* create / overwrite a regular file *)
| WDelete (p : path).

Inductive code :=
| CTake                    (* the start instant is taken *)
| CRead (p : path)         (* the preprocessor reads file p *)
| CRecord.                 (* the includes are recorded *)

Inductive ev := EEnv (w : envw) | ECode (c : code).

Definition trace := list (N * ev).

(* the code actions of one run, from the source order and the files the preprocessor reads *)
Definition code_actions (order : list N) (reads : list path) : list code :=
  flat_map (fun o => if N.eqb o 0 then [CTake]
                     else if N.eqb o 1 then map CRead reads
                     else [CRecord]) order.

Fixpoint code_of (tr : trace) : list code :=
  match tr with
  | [] => []
  | (_, ECode c) :: r => c :: code_of r
  | (_, EEnv _) :: r => code_of r
  end.

Fixpoint times_sorted (prev : N) (tr : trace) : bool :=
  match tr with
  | [] => true
  | (t, _) :: r => N.leb prev t && times_sorted t r
  end.

Definition fs_put (fs : fsnap) (p : path) (nd : node) : fsnap := (canon_path p, nd) :: fs.
Definition fs_del (fs : fsnap) (p : path) : fsnap :=
  filter (fun kv => negb (bytes_eqb (fst kv) (canon_path p))) fs.

Section Timeline.
Variable D : Type.
Variable H : bytes -> D.
Variable HT : option bytes -> option N -> D.
Variable cfg : config.
Variable date : bytes.
Variable input : path.
Variable incs : list (path * bool).    (* what the line markers of the preprocessor output announce *)

Record tstate := {
  t_fs : fsnap;
  t_start : N;                                              (* start_of_compilation *)
  t_seen : list (path * option bytes);                      (* what the preprocessor got when it opened each file *)
  t_out : option (option (list (path * idigest D)));        (* outcome of the recording, once it has run *)
}.

Definition t_init (fs : fsnap) : tstate := {| t_fs := fs; t_start := 0; t_seen := []; t_out := None |}.

Definition tstep (s : tstate) (e : N * ev) : tstate :=
  let '(t, x) := e in
  match x with
  | EEnv (WFile p b m) =>
      {| t_fs := fs_put (t_fs s) p {| n_kind := KFile; n_size := N.of_nat (length b); n_mtime := m; n_ctime := t;
                                      n_bytes := b |};
         t_start := t_start s; t_seen := t_seen s; t_out := t_out s |}
  | EEnv (WDelete p) =>
      {| t_fs := fs_del (t_fs s) p; t_start := t_start s; t_seen := t_seen s; t_out := t_out s |}
  | ECode CTake =>
      {| t_fs := t_fs s; t_start := t; t_seen := t_seen s; t_out := t_out s |}
  | ECode (CRead p) =>
      {| t_fs := t_fs s; t_start := t_start s; t_seen := (p, fs_read (t_fs s) p) :: t_seen s; t_out := t_out s |}
  | ECode CRecord =>
      {| t_fs := t_fs s; t_start := t_start s; t_seen := t_seen s;
         t_out := Some (remember_all D H HT cfg (t_fs s) (t_start s) date input [] incs) |}
  end.

Definition trun (fs0 : fsnap) (tr : trace) : tstate := fold_left tstep tr (t_init fs0).

End Timeline.
