(* Model/ArgTypes.v — the datatypes shared by the generated tables (Gen/C01ArgTables.v, written by
   translator/c01_argtables.py from src/compiler/{gcc,clang}.rs) and the hand-written model Model/Args.v.

   Rust                                   here
   ArgDisposition                         disp          (Delimiter = Option<u8>  ~  option N)
   gcc::ArgData (constructor only)        argdata
   ArgInfo::{Flag,TakeArg}                arginfo       (the value type of a take_arg! is kept: VOsString / VPathBuf)
   compiler::Language                     lang
   the list an argument is appended to    dest / xdest  (second `match` of the main loop / the `match` of the
                                                         -Xclang loop of gcc::parse_arguments)                       *)
From Coq Require Import List NArith Bool.
Import ListNotations.
Local Open Scope N_scope.

Definition bytes := list N.

Inductive vtype := VOsString | VPathBuf.

Inductive disp :=
| Separated
| CanBeConcatenated (d : option N)
| CanBeSeparated (d : option N)
| Concatenated (d : option N).

(* constructors of gcc::ArgData, in declaration order (checked by the translator) *)
Inductive argdata :=
| TooHardFlag | TooHard | DiagnosticsColor | DiagnosticsColorFlag | NoDiagnosticsColorFlag
| PassThroughFlag | PassThrough | PassThroughPath
| PreprocessorArgumentFlag | PreprocessorArgument | PreprocessorArgumentPath
| UnhashedFlag | Unhashed | DoCompilation | Output | NeedDepTarget | DepTarget | DepArgumentPath
| Language | SplitDwarf | ProfileGenerate | ClangProfileUse | TestCoverage | Coverage | ExtraHashFile
| XClang | Arch | PedanticFlag | Standard | SerializeDiagnostics.

Definition argdata_idx (c : argdata) : N :=
  match c with
  | TooHardFlag => 0 | TooHard => 1 | DiagnosticsColor => 2 | DiagnosticsColorFlag => 3
  | NoDiagnosticsColorFlag => 4 | PassThroughFlag => 5 | PassThrough => 6 | PassThroughPath => 7
  | PreprocessorArgumentFlag => 8 | PreprocessorArgument => 9 | PreprocessorArgumentPath => 10
  | UnhashedFlag => 11 | Unhashed => 12 | DoCompilation => 13 | Output => 14 | NeedDepTarget => 15
  | DepTarget => 16 | DepArgumentPath => 17 | Language => 18 | SplitDwarf => 19 | ProfileGenerate => 20
  | ClangProfileUse => 21 | TestCoverage => 22 | Coverage => 23 | ExtraHashFile => 24 | XClang => 25
  | Arch => 26 | PedanticFlag => 27 | Standard => 28 | SerializeDiagnostics => 29
  end.

Definition argdata_eqb (a b : argdata) : bool := N.eqb (argdata_idx a) (argdata_idx b).

Definition all_argdata : list argdata :=
  [ TooHardFlag; TooHard; DiagnosticsColor; DiagnosticsColorFlag; NoDiagnosticsColorFlag;
    PassThroughFlag; PassThrough; PassThroughPath;
    PreprocessorArgumentFlag; PreprocessorArgument; PreprocessorArgumentPath;
    UnhashedFlag; Unhashed; DoCompilation; Output; NeedDepTarget; DepTarget; DepArgumentPath;
    Language; SplitDwarf; ProfileGenerate; ClangProfileUse; TestCoverage; Coverage; ExtraHashFile;
    XClang; Arch; PedanticFlag; Standard; SerializeDiagnostics ].

Inductive arginfo :=
| IFlag (s : bytes) (c : argdata)
| ITake (s : bytes) (vt : vtype) (d : disp) (c : argdata).

Definition flag_str (i : arginfo) : bytes :=
  match i with IFlag s _ => s | ITake s _ _ _ => s end.
Definition info_data (i : arginfo) : argdata :=
  match i with IFlag _ c => c | ITake _ _ _ c => c end.

(* compiler::Language, declaration order *)
Inductive lang :=
| LC | LCxx | LGenericHeader | LCHeader | LCxxHeader | LObjectiveC | LObjectiveCxx | LObjectiveCxxHeader
| LCuda | LCudaFE | LPtx | LCubin | LRust | LHip.

Definition lang_idx (l : lang) : N :=
  match l with
  | LC => 0 | LCxx => 1 | LGenericHeader => 2 | LCHeader => 3 | LCxxHeader => 4 | LObjectiveC => 5
  | LObjectiveCxx => 6 | LObjectiveCxxHeader => 7 | LCuda => 8 | LCudaFE => 9 | LPtx => 10 | LCubin => 11
  | LRust => 12 | LHip => 13
  end.
Definition lang_eqb (a b : lang) : bool := N.eqb (lang_idx a) (lang_idx b).

(* where the main loop appends an argument (its second `match arg.get_data()`) *)
Inductive dest :=
| DCommon | DUnhashed | DArch | DPre | DDep
| DSkip          (* `continue`: the argument is kept in a dedicated variable, not in a list *)
| DUnreachable.  (* `unreachable!()`: the first match already returned *)

Definition dest_idx (d : dest) : N :=
  match d with DCommon => 0 | DUnhashed => 1 | DArch => 2 | DPre => 3 | DDep => 4 | DSkip => 5 | DUnreachable => 6 end.
Definition dest_eqb (a b : dest) : bool := N.eqb (dest_idx a) (dest_idx b).

(* statements in front of the `&mut list` of an arm *)
Inductive arm_effect :=
| ENone
| EExtraHash     (* extra_hash_files.push(cwd.join(path)) *)
| ETooHardPP.    (* too_hard_for_preprocessor_cache_mode = Some(arg) for -Xpreprocessor / -Wp, unchanged otherwise *)

(* the -Xclang loop *)
Inductive xdest :=
| XCannotCache
| XList (d : dest).

(* a component of the argument vector that c.rs generate_hash_key hands to a key function *)
Inductive keycomp :=
| KList (d : dest)                       (* a whole list of ParsedArguments *)
| KFiltered (d : dest) (pred : bytes)    (* the list minus the words a predicate (named) rejects *)
| KProfileOutput                         (* the absolute output path, for profile / coverage builds *)
| KCwd.                                  (* the working directory (pushed when the preprocessor-cache option
                                            hash_working_directory is set, its documented default) *)
