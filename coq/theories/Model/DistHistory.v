(* Model/DistHistory.v — C13: histories of requests around `dist_or_local_compile`.

   Part 1: `get_cached_or_compile` of a C compilation over an edit history, with the main cache, the
   preprocessor cache ("direct mode") and the translation unit that is packaged for a job.
   Anchors: src/compiler/c.rs CCompilerHasher::generate_hash_key
       can_use_preprocessor_cache_mode = !may_dist && config.use_preprocessor_cache_mode && ..
       direct-mode hit  => HashResult { key, CCompilation { preprocessed_input: vec![], .. } }   (no preprocessor run)
       otherwise        => run the preprocessor, record the preprocessor-cache entry (if direct mode is in use and
                           the unit has includes) BEFORE compiling, CCompilation { preprocessed_input: stdout }
     src/compiler/compiler.rs get_cached_or_compile: lookup, hit => extract_objects; miss => dist_or_local_compile,
     store on success; src/compiler/c.rs CInputsPackager::write_inputs packages `preprocessed_input` as the input file.

   Part 2: the client toolchain cache over several requests and client restarts.
   Anchors: src/dist/cache.rs ClientToolchains::put_toolchain (weak-key shortcut; package; TcCache::insert_file;
     record_weak AFTER a successful insert; weak_map.json persisted), get_toolchain;
     src/dist/http.rs Client::do_submit_toolchain (`Ok(None) => Err("couldn't find toolchain locally")`). *)
From Coq Require Import List NArith ZArith Bool.
From Sccache Require Import Model.DistStatus Model.DistFallback.
Import ListNotations.
Local Open Scope N_scope.

(* ------------------------------------------------------------------ part 1 *)

Inductive src := SrcRemote | SrcLocal.        (* whose stdout/stderr a result carries *)
Inductive tu := TuFull | TuEmpty.             (* the translation unit handed to the inputs packager *)

Record step := {
  st_script : script;             (* the fault assignment of this request; s_dist = a dist client is configured *)
  st_variant : N;                 (* which edit of the source is compiled (determines every key) *)
  st_clean : bool;                (* the output files are removed before the request ("make clean") *)
  st_pre : list (path * N) }.     (* files put at output paths before the request, with their length kind *)

Record hstate := {
  h_fs : fs;
  h_store : list (N * (content * src));   (* main cache: variant -> what the object held, whose output *)
  h_pp : list N }.                        (* variants with a preprocessor-cache entry *)

Definition h_init : hstate := {| h_fs := []; h_store := []; h_pp := [] |}.

Fixpoint lookup {A} (k : N) (l : list (N * A)) : option A :=
  match l with
  | [] => None
  | (k', v) :: r => if N.eqb k' k then Some v else lookup k r
  end.
Definition mem (k : N) (l : list N) : bool := existsb (N.eqb k) l.

(* do_run_job is reached: everything before it succeeded *)
Definition job_reached (s : script) : bool :=
  s_gen s && s_dist s
  && match s_prep s with None => true | _ => false end
  && match s_put s with None => true | _ => false end
  && match s_alloc s with
     | AllocOk need => if need then match s_submit s with SubOk => true | _ => false end else true
     | _ => false
     end.

Definition src_of (r : result) : option src :=
  match r_out r with
  | OOk DistOk _ => Some SrcRemote
  | OOk _ _ => Some SrcLocal
  | OProcErr _ => Some SrcLocal
  | _ => None
  end.

Record hobs := {
  ho_hit : bool;                 (* served from the cache *)
  ho_q : req_class;              (* otherwise: the class of the compile (meaningless on a hit) *)
  ho_out : outcome;              (* status etc. (a hit: OOk NoDist 0) *)
  ho_ran : bool;                 (* the local compiler was run *)
  ho_src : option src;
  ho_pprun : bool;               (* the local preprocessor was run *)
  ho_sent : option tu;           (* Some: a job was sent, with this translation unit *)
  ho_fs : fs }.

Definition prepare (h : hstate) (st : step) : fs :=
  fold_left (fun f pk => fs_write (fst pk) (CPre (snd pk)) f) (st_pre st)
            (if st_clean st then [] else h_fs h).

Definition hstep (pp : bool) (h : hstate) (st : step) : hstate * hobs :=
  let s := st_script st in
  let v := st_variant st in
  let f := prepare h st in
  let pp_active := pp && negb (s_dist s) in          (* !may_dist && use_preprocessor_cache_mode *)
  let direct := pp_active && mem v (h_pp h) in        (* preprocessor-cache hit: key without preprocessing *)
  let pp' := if pp_active && negb direct then v :: h_pp h else h_pp h in
  let unit := if direct then TuEmpty else TuFull in
  match lookup v (h_store h) with
  | Some (c, sr) =>
      let f' := fs_write 0 c f in
      ({| h_fs := f'; h_store := h_store h; h_pp := pp' |},
       {| ho_hit := true; ho_q := QMiss NoDist; ho_out := OOk NoDist 0%Z; ho_ran := false; ho_src := Some sr;
          ho_pprun := negb direct; ho_sent := None; ho_fs := f' |})
  | None =>
      let r := dist_or_local true s f in
      let q := request_class 0 r in
      let store' := match q, fs_get (r_fs r) 0, src_of r with
                    | QMiss _, Some c, Some sr => (v, (c, sr)) :: h_store h
                    | _, _, _ => h_store h
                    end in
      ({| h_fs := r_fs r; h_store := store'; h_pp := pp' |},
       {| ho_hit := false; ho_q := q; ho_out := r_out r; ho_ran := r_local_ran r;
          ho_src := match q with QErrZip => None | _ => src_of r end;
          ho_pprun := negb direct;
          ho_sent := if job_reached s then Some unit else None;
          ho_fs := r_fs r |})
  end.

Fixpoint hrun (pp : bool) (h : hstate) (steps : list step) : list hobs :=
  match steps with
  | [] => []
  | st :: rest => let '(h', o) := hstep pp h st in o :: hrun pp h' rest
  end.

(* ------------------------------------------------------------------ part 2 *)

Record tcstate := {
  t_weak : bool;        (* weak_map.json maps the compiler's weak key to an archive id *)
  t_archive : bool }.   (* the archive is in the toolchain cache *)

Definition tc_init : tcstate := {| t_weak := false; t_archive := false |}.

Inductive tcop :=
| TcRequest (need_toolchain : bool) (local : local_res)
| TcRestart.            (* the client is restarted on the same cache directory: both components are on disk *)

(* ClientToolchains::put_toolchain for one compiler whose packaged toolchain has `size` bytes *)
Definition tc_put (limit size : N) (t : tcstate) : option eclass * tcstate :=
  if t_weak t then (None, t)                               (* "Using cached toolchain" *)
  else if limit <? size then (Some ETooLarge, t)           (* insert_file fails: nothing is recorded *)
  else (None, {| t_weak := true; t_archive := true |}).

Definition tc_script (need : bool) (local : local_res) (put : option eclass) (t : tcstate) : script :=
  {| s_gen := true; s_dist := true; s_prep := None; s_put := put; s_alloc := AllocOk need;
     s_submit := if t_archive t then SubOk else SubErr EOther;     (* "couldn't find toolchain locally" *)
     s_run := RunComplete 0%Z [(0, WOk)]; s_rewrite := None; s_local := local |}.

Definition tc_step (limit size : N) (tf : tcstate * fs) (op : tcop) : (tcstate * fs) * option result :=
  let '(t, f) := tf in
  match op with
  | TcRestart => ((t, f), None)
  | TcRequest need local =>
      let '(put, t') := tc_put limit size t in
      let r := dist_or_local true (tc_script need local put t') f in
      ((t', r_fs r), Some r)
  end.

Fixpoint tc_run (limit size : N) (tf : tcstate * fs) (ops : list tcop) : list (tcstate * option result) :=
  match ops with
  | [] => []
  | op :: rest => let '(tf', o) := tc_step limit size tf op in (fst tf', o) :: tc_run limit size tf' rest
  end.
