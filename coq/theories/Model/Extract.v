(* Extract.v — executable model of `CacheRead::extract_objects` (src/cache/cache.rs) over Model/FsModel.v,
   and of the processes that look at the output files while it runs.

   The Rust code, per `FileObjectSource { key, path, optional }`, in order:

       let mut tmp = NamedTempFile::new_in(dir)?;                 ACreateTmp   (error: abort, nothing made)
       match (self.get_object(&key, &mut tmp), optional) {        AWrite*      (zstd::stream::copy_decode into tmp)
           (Ok(mode), _) => {
               tmp.persist(&path)?;                               ARename      (error: PersistError drops tmp: AUnlink; abort)
               if let Some(mode) = mode {
                   set_file_mode(&path, mode)?;                   AChmod       (error: abort)
               }
           }
           (Err(e), false) => return Err(e),                      AUnlink (drop of tmp); AFail
           (Err(e), true) => {
               if self.zip.file_names().any(|n| n == key) {       the member is STORED but cannot be read back:
                   return Err(e);                                 AUnlink (drop of tmp); AFail
               }
               continue;                                          the member is ABSENT: AUnlink (drop of tmp)
           }
       }

   Before that, since the repair "a cached result whose output path is a device node (-o /dev/null) is written
   into it instead of renaming a file over it":

       let special = fs::metadata(&path)                          [o_special]: the path exists (following links) and
           .map(|m| !is_file && !is_dir).unwrap_or(false);        is neither a regular file nor a directory
       if special {
           let mut out = OpenOptions::new().write(true).open(&path)?;     AOpenDev   (error: abort)
           match (self.get_object(&key, &mut out), optional) {            AWriteDev* (into the device: a sink)
               (Ok(_), _) => continue,                                    no rename, no chmod
               (Err(e), false) => return Err(e),                          AFail
               (Err(e), true) => {                                        as in the regular branch: only an ABSENT
                   if self.zip.file_names().any(|n| n == key) {           optional member is skipped, a stored one
                       return Err(e);                                     that cannot be read back fails: AFail
                   }
                   continue;
               }
           }
       }

   A device node is not a regular inode holding bytes: in the model it is a sink — [AOpenDev] / [AWriteDev]
   change nothing in the file system (the directory entry stays, there are no old bytes to lose, whoever reads
   the path reads what the device gives, which the extraction does not influence).  [o_special] is the
   environment's answer to the `metadata` call, like [o_dec] and [o_fault]; the sink semantics is only right
   for paths that really are device nodes, which is what the code's test guarantees.

   [get_object] fails when the member is absent ([DecAbsent]), or is stored but is not `Stored`-compressed or
   does not decode (zstd error, zip CRC error, write error: [DecCorrupt]): whatever it wrote before failing is
   in the temp file.  Only an ABSENT optional member is skipped; a stored one that cannot be read back fails
   the extraction whether optional or not (the fix "a stored optional object that cannot be read back makes
   the cache entry a miss").  An object description [obj]
   fixes the environment's choices for one member: the random part of the temp name, HOW the decoded bytes
   arrive (any chunking), whether decoding succeeds ([DecOk mode], then the chunks are the complete member)
   or fails ([DecAbsent] / [DecCorrupt], after the chunks), and an optional failing system call ([o_fault]).

   Observers: threads of [AOpen p] / [ARead] actions.  [AOpen] stores the inode the path names NOW in the
   thread's descriptor; [ARead] logs the CURRENT bytes of that inode (a snapshot of the whole file at that
   moment: if anybody wrote into the inode between two reads, the snapshots would differ).  A holder of a
   descriptor opened before the request starts with the descriptor set.

   No proofs here (Proofs/Extract.v). *)
From Coq Require Import List NArith Bool.
From Sccache Require Import Base.Sx Model.FsModel.
Import ListNotations.
Local Open Scope N_scope.

Inductive dec := DecOk (mode : option N) | DecAbsent | DecCorrupt.
Inductive fault := FNone | FCreate | FPersist | FChmod.

Record obj := mkObj {
  o_path : path;              (* the output file *)
  o_sfx : bytes;              (* random part of the temp-file name *)
  o_chunks : list bytes;      (* the writes of copy_decode, in order *)
  o_dec : dec;                (* outcome of get_object *)
  o_optional : bool;
  o_fault : fault;            (* a failing system call, if any *)
  o_special : bool;           (* the output path is a device node (`-o /dev/null`): written into, never replaced *)
}.

Definition o_tmp (o : obj) : path := tmp_of (o_path o) (o_sfx o).
Definition o_new (o : obj) : bytes := concat (o_chunks o).
Definition o_ok (o : obj) : bool := match o_dec o with DecOk _ => true | _ => false end.

Inductive action :=
| ACreateTmp (t : path)
| AWrite (b : bytes)
| ARename (t p : path)
| AChmod (p : path) (m : N)
| AUnlink (t : path)
| AFail
| AOpen (p : path)
| ARead
| AOpenDev (p : path)        (* open(path, O_WRONLY) of a device node *)
| AWriteDev (b : bytes).     (* write into the device: a sink *)

(* thread-local state: the open descriptor (an inode), the path it was opened at, what was read so far
   (path, inode, bytes), and whether the thread has stopped with an error *)
Record local := mkLocal {
  l_fd : option ino;
  l_path : path;
  l_log : list (path * ino * bytes);
  l_dead : bool;
}.

Definition init_local : local := mkLocal None ([], []) [] false.
Definition kill (l : local) : local := mkLocal None (l_path l) (l_log l) true.
Definition close (l : local) : local := mkLocal None (l_path l) (l_log l) (l_dead l).

Definition act (a : action) (f : fs) (l : local) : fs * local :=
  if l_dead l then (f, l) else
  match a with
  | ACreateTmp t =>
      match create_tmp t f with
      | Some (f', i) => (f', mkLocal (Some i) t (l_log l) false)
      | None => (f, kill l)
      end
  | AWrite b =>
      match l_fd l with
      | Some i => (write_chunk i b f, l)
      | None => (f, l)
      end
  | ARename t p =>
      (* persist consumes the NamedTempFile; the File it returns is dropped at once: descriptor closed *)
      match rename t p f with
      | Some f' => (f', close l)
      | None => (f, kill l)
      end
  | AChmod p m => (chmod p m f, l)
  | AUnlink t => (unlink t f, close l)
  | AFail => (f, kill l)
  | AOpen p => (f, mkLocal (lookup p f) p (l_log l) false)
  | ARead =>
      match l_fd l with
      | Some i =>
          match bytes_of f i with
          | Some c => (f, mkLocal (l_fd l) (l_path l) (l_log l ++ [(l_path l, i, c)]) false)
          | None => (f, l)
          end
      | None => (f, l)
      end
  | AOpenDev p => (f, mkLocal None p (l_log l) false)
  | AWriteDev _ => (f, l)
  end.

(* what extract_objects does for one object *)
Definition prog_special (o : obj) : list action :=
  match o_fault o with
  | FCreate => [AFail]                                  (* the open fails *)
  | _ =>
      AOpenDev (o_path o) :: map AWriteDev (o_chunks o) ++
      match o_dec o with
      | DecOk _ => []
      | DecAbsent => if o_optional o then [] else [AFail]
      | DecCorrupt => [AFail]
      end
  end.

Definition prog_obj (o : obj) : list action :=
  if o_special o then prog_special o else
  match o_fault o with
  | FCreate => [AFail]
  | flt =>
      ACreateTmp (o_tmp o) :: map AWrite (o_chunks o) ++
      match o_dec o with
      | DecOk mode =>
          match flt with
          | FPersist => [AUnlink (o_tmp o); AFail]
          | _ =>
              ARename (o_tmp o) (o_path o) ::
              match mode with
              | Some m => match flt with FChmod => [AFail] | _ => [AChmod (o_path o) m] end
              | None => []
              end
          end
      | DecAbsent => AUnlink (o_tmp o) :: (if o_optional o then [] else [AFail])
      | DecCorrupt => [AUnlink (o_tmp o); AFail]
      end
  end.

Definition prog (objs : list obj) : list action := flat_map prog_obj objs.

(* the extraction thread alone, action by action *)
Definition seq_run (acts : list action) (s : fs * local) : fs * local :=
  fold_left (fun s a => act a (fst s) (snd s)) acts s.

(* the whole system: thread 0 is the extraction, the others are observers *)
Definition sys (f0 : fs) (objs : list obj) (readers : list (@thread local action)) :
  fs * list (@thread local action) :=
  (f0, (init_local, prog objs) :: readers).

Definition run (sched : list nat) (f0 : fs) (objs : list obj) (readers : list (@thread local action)) :=
  exec act sched (sys f0 objs readers).

(* ---------- the result handed to the caller (src/compiler/compiler.rs, the cache-hit arm) ----------
   Ok: the request is answered from the cache.  A DecompressionFailure (a member that is stored but does not
   decode, or is absent and not optional) turns the hit into a miss (`MissType::CacheReadError`): the compiler runs and rewrites
   the outputs.  Any other error (temp file cannot be made, persist or chmod fails) fails the request. *)
Inductive result := ROk | RDecompressionFailure | ROtherError.

Definition o_hard (o : obj) : option result :=
  if o_special o then
    match o_fault o with
    | FCreate => Some ROtherError
    | _ => match o_dec o with
           | DecOk _ => None
           | DecAbsent => if o_optional o then None else Some RDecompressionFailure
           | DecCorrupt => Some RDecompressionFailure
           end
    end
  else
  match o_fault o with
  | FCreate => Some ROtherError
  | flt =>
      match o_dec o with
      | DecAbsent => if o_optional o then None else Some RDecompressionFailure
      | DecCorrupt => Some RDecompressionFailure
      | DecOk mode =>
          match flt with
          | FPersist => Some ROtherError
          | FChmod => match mode with Some _ => Some ROtherError | None => None end
          | _ => None
          end
      end
  end.

Fixpoint static_result (objs : list obj) : result :=
  match objs with
  | [] => ROk
  | o :: r => match o_hard o with Some e => e | None => static_result r end
  end.

(* the result of a run that ended in local state [l] *)
Definition result_of (objs : list obj) (l : local) : result :=
  if l_dead l then match static_result objs with ROk => ROtherError | e => e end else ROk.

(* ---------- what an observer may be ---------- *)

Definition reader_action (a : action) : bool :=
  match a with
  | AOpen p => negb (is_tmp p)
  | ARead => true
  | _ => false
  end.

(* a poller: no descriptor yet; opens and reads as it likes *)
Definition pollerb (t : @thread local action) : bool :=
  match l_fd (fst t) with None => true | Some _ => false end
  && negb (l_dead (fst t))
  && match l_log (fst t) with [] => true | _ => false end
  && forallb reader_action (snd t).

(* a holder: a descriptor on [l_path], opened before the request; only reads *)
Definition read_only_action (a : action) : bool := match a with ARead => true | _ => false end.

Definition holderb (f0 : fs) (t : @thread local action) : bool :=
  negb (is_tmp (l_path (fst t)))
  && match l_fd (fst t), lookup (l_path (fst t)) f0 with
     | Some i, Some j => N.eqb i j
     | _, _ => false
     end
  && negb (l_dead (fst t))
  && match l_log (fst t) with [] => true | _ => false end
  && forallb read_only_action (snd t).

Definition observerb (f0 : fs) (t : @thread local action) : bool := pollerb t || holderb f0 t.

(* no output is itself named like a temp file *)
Definition outputs_okb (objs : list obj) : bool := forallb (fun o => negb (is_tmp (o_path o))) objs.

(* ---------- classification of what was read (used by Run/C10.v) ---------- *)

Definition opt_bytes_eqb (a b : option bytes) : bool :=
  match a, b with
  | Some x, Some y => bytes_eqb x y
  | None, None => true
  | _, _ => false
  end.

(* [c] is the complete new content of some successfully decoded object for [p] *)
Definition is_newb (objs : list obj) (p : path) (c : bytes) : bool :=
  existsb (fun o => path_eqb (o_path o) p && o_ok o && bytes_eqb (o_new o) c) objs.

Definition wholeb (f0 : fs) (objs : list obj) (p : path) (c : bytes) : bool :=
  opt_bytes_eqb (content f0 p) (Some c) || is_newb objs p c.

(* ---------- the extraction as a producer of events (trace acceptance, Run/C10.v) ---------- *)

Inductive event :=
| ECreate (t : path)
| EWrite (t : path) (n : N)
| ERename (a b : path)
| EChmod (p : path) (m : N)
| EUnlink (t : path)
| EOpenW (p : path).         (* open for writing of an existing path: only ever a device node *)

(* the system calls the extraction thread issues from [s]: exactly the actions it executes while alive *)
Fixpoint trace (acts : list action) (s : fs * local) : list event :=
  match acts with
  | [] => []
  | a :: r =>
      let s' := act a (fst s) (snd s) in
      if l_dead (snd s) then [] else
      match a with
      | ACreateTmp t => if l_dead (snd s') then trace r s' else ECreate t :: trace r s'
      | AWrite b => EWrite (l_path (snd s)) (N.of_nat (length b)) :: trace r s'
      | ARename t p => if l_dead (snd s') then trace r s' else ERename t p :: trace r s'
      | AChmod p m => EChmod p m :: trace r s'
      | AUnlink t => EUnlink t :: trace r s'
      | AOpenDev p => EOpenW p :: trace r s'
      | AWriteDev b => EWrite (l_path (snd s)) (N.of_nat (length b)) :: trace r s'
      | _ => trace r s'
      end
  end.
