(* Model/PpPaths.v — unix `std::path` as far as the preprocessor-cache code relies on it: `Path::components`
   (equality and hashing of paths are by components), `normalize_path` of src/compiler/c.rs (the code AFTER the
   fix: commit "normalize_path keeps the leading '..' of relative include paths"), and the lexical resolution of
   an absolute path that a file system without symlinks performs (`canon_path`). *)
From Coq Require Import List NArith Bool.
From Sccache Require Import Base.Sx.
Import ListNotations.
Local Open Scope N_scope.

Local Notation bytes := (list N).

Inductive comp := CRoot | CCur | CParent | CNormal (s : bytes).

Fixpoint split_slash (cur : bytes) (b : bytes) : list bytes :=
  match b with
  | [] => [rev cur]
  | c :: r => if N.eqb c 47 then rev cur :: split_slash [] r else split_slash (c :: cur) r
  end.

Definition seg_comp (s : bytes) : option comp :=
  match s with
  | [] => None
  | [46] => None                 (* "." inside a path is skipped by Path::components *)
  | [46; 46] => Some CParent
  | _ => Some (CNormal s)
  end.

Fixpoint seg_comps (l : list bytes) : list comp :=
  match l with
  | [] => []
  | s :: r => match seg_comp s with Some c => c :: seg_comps r | None => seg_comps r end
  end.

(* std::path::Path::components (unix) *)
Definition components (p : bytes) : list comp :=
  match p with
  | [] => []
  | 47 :: _ => CRoot :: seg_comps (split_slash [] p)
  | _ =>
      match split_slash [] p with
      | [46] :: r => CCur :: seg_comps r
      | l => seg_comps l
      end
  end.

Definition comp_eqb (a b : comp) : bool :=
  match a, b with
  | CRoot, CRoot | CCur, CCur | CParent, CParent => true
  | CNormal x, CNormal y => bytes_eqb x y
  | _, _ => false
  end.

Fixpoint comps_eqb (a b : list comp) : bool :=
  match a, b with
  | [], [] => true
  | x :: a', y :: b' => comp_eqb x y && comps_eqb a' b'
  | _, _ => false
  end.

(* pub fn normalize_path: fold over the components with push / pop; `acc` is the result reversed *)
Fixpoint normalize_comps (acc : list comp) (l : list comp) : list comp :=
  match l with
  | [] => rev acc
  | CRoot :: r => normalize_comps (CRoot :: acc) r
  | CCur :: r => normalize_comps acc r
  | CParent :: r =>
      normalize_comps (match acc with
                       | CNormal _ :: acc' => acc'      (* `..` cancels a normal component *)
                       | CRoot :: _ => acc             (* the parent of the root is the root *)
                       | _ => CParent :: acc           (* leading `..` of a relative path stays *)
                       end) r
  | CNormal s :: r => normalize_comps (CNormal s :: acc) r
  end.

(* the bytes of a PathBuf built by push()ing components *)
Definition comp_name (c : comp) : bytes :=
  match c with CNormal s => s | CParent => [46; 46] | CCur => [46] | CRoot => [] end.

Fixpoint render_names (l : list comp) : bytes :=
  match l with
  | [] => []
  | [c] => comp_name c
  | c :: r => comp_name c ++ [47] ++ render_names r
  end.

Definition render (l : list comp) : bytes :=
  match l with
  | CRoot :: r => 47 :: render_names r
  | _ => render_names l
  end.


(* what a file system without symlinks opens for an absolute path: `.` and `..` resolved lexically *)
Definition canon_path (p : bytes) : bytes := render (normalize_comps [] (components p)).
