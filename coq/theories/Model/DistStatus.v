(* Model/DistStatus.v — C13: how a remote exit status travels back to the client.

   Anchors: src/dist/mod.rs  `ProcessOutput::try_from` (server side, unix),
            `exit_status` + `impl From<ProcessOutput> for process::Output` (client side, unix),
            std::os::unix::process::ExitStatusExt::from_raw and the decoders of
            std::process::ExitStatus on unix (library/std/src/sys/pal/unix/process):
              exited()  = WIFEXITED(raw)   = (raw & 0x7f) == 0
              code()    = exited().then(|| WEXITSTATUS(raw) = (raw >> 8) & 0xff)
              signal()  = WIFSIGNALED(raw).then(|| WTERMSIG(raw) = raw & 0x7f)
                          WIFSIGNALED(raw) = ((raw & 0x7f) + 1) as i8 >= 2
              success() = exit_ok().is_ok() = (raw == 0)

   A raw wait status and the `code: i32` field of `ProcessOutput` are i32 values, modelled as Z
   (two's-complement bit operations of Coq's Z agree with i32 on the low 32 bits; `wrap32`
   reduces the one arithmetic result that can leave the i32 range).

   `to_local_orig` is the conversion at the pinned commit (S9: `from_raw(code)`, unshifted);
   `to_local` is the conversion after `fix: dist: encode the remote exit code as a unix wait
   status` (`from_raw(code << 8)`).  Windows (`from_raw(code as u32)`) is not modelled. *)
From Coq Require Import List ZArith Bool.
Import ListNotations.
Local Open Scope Z_scope.

Definition raw_status := Z.

Definition wrap32 (z : Z) : Z :=
  let m := z mod 4294967296 in
  if m <? 2147483648 then m else m - 4294967296.

(* ---- decoders of std::process::ExitStatus (unix) ---- *)
Definition exited (raw : raw_status) : bool := Z.land raw 127 =? 0.

Definition code (raw : raw_status) : option Z :=
  if exited raw then Some (Z.land (Z.shiftr raw 8) 255) else None.

(* ((raw & 0x7f) + 1) as i8 >= 2 : with x = raw & 0x7f in 0..127, x+1 = 128 wraps to -128 *)
Definition signaled (raw : raw_status) : bool :=
  let x := Z.land raw 127 in
  (1 <=? x) && (x <=? 126).

Definition signal (raw : raw_status) : option Z :=
  if signaled raw then Some (Z.land raw 127) else None.

Definition success (raw : raw_status) : bool := raw =? 0.

(* ---- server side: ProcessOutput::try_from(process::Output) ---- *)
(* match (status.code(), status.signal()) { (Some(c), _) => c, (None, Some(_)) => bail, (None, None) => bail } *)
Definition try_from_output (raw : raw_status) : option Z :=
  match code raw, signal raw with
  | Some c, _ => Some c
  | None, _ => None
  end.

(* ---- client side: impl From<ProcessOutput> for process::Output ---- *)
(* pinned commit:  ExitStatus::from_raw(code) *)
Definition to_local_orig (c : Z) : raw_status := c.
(* after the fix:  ExitStatus::from_raw(code << 8)   (i32 shl: bits shifted out are dropped) *)
Definition to_local (c : Z) : raw_status := wrap32 (Z.shiftl c 8).

(* What the sccache server reports to the client for a finished compile (src/server.rs):
     match status.code() { Some(code) => retcode = Some(code), None => signal = Some(get_signal(status)) } *)
Inductive client_status :=
| CsExit (c : Z)
| CsSignal (s : Z).

Definition client_view (raw : raw_status) : client_status :=
  match code raw with
  | Some c => CsExit c
  | None => CsSignal (match signal raw with Some s => s | None => Z.land raw 127 end)
  end.
