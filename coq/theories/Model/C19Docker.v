(* C19Docker.v — executable model of DockerBuilder::clean_container (src/bin/sccache-dist/build.rs): the decision
   whether a used container may go back into the per-toolchain pool and be handed to the next job.

     diff := `docker diff cid` (trimmed); empty => Ok.
     for each line (split at '\n'):  type, path := line split at its first ' ' (no ' ' => Err "no change path")
         path == "/tmp"                       => next line
         type != "A"                          => Err                      (* THE RULE: only additions are tolerated *)
         path below the last removed path     => next line               (Path::starts_with: component-wise)
         otherwise                            => `docker exec cid /busybox rm -rf path`, remember path
     newdiff := `docker diff cid`;  Ok iff newdiff is empty or exactly "C /tmp".

   `docker` is a parameter: the second diff as a function of the paths removed.  [docker_of] is the docker the
   hook's stand-in implements (a container = the list of its diff lines; rm -rf takes away the added lines at
   and below a path). *)
From Coq Require Import List NArith Bool.
From Coq Require String.
Import String.StringSyntax.
From Sccache Require Import Base.Sx Model.Paths.
Import ListNotations.
Local Open Scope N_scope.
Local Open Scope string_scope.

Definition NL : N := 10.
Definition SP : N := 32.

Fixpoint split_by (c : N) (s : bytes) : list bytes :=
  match s with
  | [] => [[]]
  | x :: r =>
      if x =? c then [] :: split_by c r
      else match split_by c r with
           | seg :: rest => (x :: seg) :: rest
           | [] => [[x]]
           end
  end.

(* line.splitn(2, ' '): (type, Some path) or (type, None) *)
Fixpoint split_first_space (l : bytes) : bytes * option bytes :=
  match l with
  | [] => ([], None)
  | x :: r => if x =? SP then ([], Some r)
              else let '(t, p) := split_first_space r in (x :: t, p)
  end.

Definition comp_eqb (a b : comp) : bool :=
  match a, b with
  | CRoot, CRoot | CCur, CCur | CUp, CUp => true
  | CNormal x, CNormal y => bytes_eqb x y
  | _, _ => false
  end.

Fixpoint comps_prefix (p l : list comp) : bool :=
  match p, l with
  | [], _ => true
  | x :: p', y :: l' => comp_eqb x y && comps_prefix p' l'
  | _ :: _, [] => false
  end.

(* Path::new(a).starts_with(b) *)
Definition path_starts_with (a b : bytes) : bool := comps_prefix (components b) (components a).

Definition s_tmp : bytes := bs "/tmp".
Definition s_A : bytes := bs "A".
Definition s_C_tmp : bytes := bs "C /tmp".

(* the loop over the lines of the first diff: the paths removed so far (in order) and whether the loop got
   through (false = bail; what was removed before stays removed) *)
Fixpoint scan (lines : list bytes) (last : option bytes) (rms : list bytes) : list bytes * bool :=
  match lines with
  | [] => (rev rms, true)
  | l :: rest =>
      match split_first_space l with
      | (_, None) => (rev rms, false)
      | (t, Some p) =>
          if bytes_eqb p s_tmp then scan rest last rms
          else if negb (bytes_eqb t s_A) then (rev rms, false)
          else if match last with Some lp => path_starts_with p lp | None => false end then scan rest last rms
          else scan rest (Some p) (p :: rms)
      end
  end.

Definition clean_container (diff : bytes) (docker : list bytes -> bytes) : list bytes * bool :=
  match diff with
  | [] => ([], true)
  | _ =>
      match scan (split_by NL diff) None [] with
      | (rms, false) => (rms, false)
      | (rms, true) =>
          let newdiff := docker rms in
          (rms, match newdiff with [] => true | _ => bytes_eqb newdiff s_C_tmp end)
      end
  end.

(* ---- the stand-in docker of the hook: a container is the list of its diff lines *)
Fixpoint join_lines (l : list bytes) : bytes :=
  match l with
  | [] => []
  | [x] => x
  | x :: r => x ++ NL :: join_lines r
  end.

(* rm -rf p: the added (`A`) lines at and below p are gone; everything else stays what it is *)
Definition rm_rf (ls : list bytes) (p : bytes) : list bytes :=
  filter (fun l => match split_first_space l with
                   | (t, Some q) => negb (bytes_eqb t s_A && path_starts_with q p)
                   | (_, None) => true
                   end) ls.

(* check_stdout_trim: the whole output of `docker diff` is trimmed (only ASCII white space is generated) *)
Definition is_ws (c : N) : bool := (c =? 32) || ((9 <=? c) && (c <=? 13)).

Fixpoint trim_front (s : bytes) : bytes :=
  match s with
  | c :: r => if is_ws c then trim_front r else s
  | [] => []
  end.

Definition trim (s : bytes) : bytes := rev (trim_front (rev (trim_front s))).

(* `docker diff` prints one entry `<type> <path>` per line, the path raw - whatever bytes it holds *)
Definition docker_of (es : list bytes) (rms : list bytes) : bytes := trim (join_lines (fold_left rm_rf rms es)).

(* es: what the container holds, as entries `<type> <path>` *)
Definition clean_lines (es : list bytes) : list bytes * bool * list bytes :=
  let '(rms, ok) := clean_container (trim (join_lines es)) (docker_of es) in
  (rms, ok, fold_left rm_rf rms es).
