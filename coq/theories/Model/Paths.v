(* Paths.v — executable model of the path arithmetic of sccache's build server (property C19), as fixed by
   the three `fix:` commits of branch verif/C19 (toolchain id validation; join_suffix resolves ".." inside the
   job root; join_suffix resolves symlinks inside the job root).
   (OWNED BY C19.  Other properties with path needs: Model/RustPath.v (C05), Model/PpPaths.v (C04).)

   Part 1  std::path on Unix, on byte strings ([list N]), as far as the build server relies on it:
             has_root, components (repeated '/', inner "." and trailing '/' dropped, a leading "." kept as
             CurDir, ".." KEPT), PathBuf::push / Path::join (an absolute right operand replaces), parent.
   Part 2  what the kernel does with a path: [resolve] in a tree without symlinks, [walk] with symlinks
           (given as an oracle from resolved paths to link targets; at most 40 links are followed).
   Part 3  the server's own computations, literally:
             Toolchain::archive_id_is_valid        src/dist/mod.rs
             make_lru_key_path                     src/dist/cache.rs   (None = the slicing panics)
             join_suffix                           src/bin/sccache-dist/build.rs
             toolchain / build / work / upper / target directory names and every path that
             prepare_overlay_dirs and perform_build create or open for one job, in order.
   Part 4  the toolchain-directory map of OverlayBuilder (build counters, eviction) and the set of live
           build directories, as a transition system over prepare / finish / evict.
   Part 5  a build server in a scratch root, at the granularity of the hook's `fs` leg: the three handlers
           of src/bin/sccache-dist/main.rs, the toolchain cache, the per-job overlay root as a finite map
           from resolved paths to files/directories/symlinks (toolchain + unpacked inputs + directories the
           server creates + what the job writes), output collection.  Overlayfs is ASSUMED to behave as
           documented: every job starts from the unpacked toolchain, and what a job writes lands in its own
           upper directory, which finish_overlay deletes.

   No proofs here (Proofs/Paths.v). *)
From Coq Require Import List NArith Bool.
From Coq Require String.
Import String.StringSyntax.
From Sccache Require Import Base.Sx.
Import ListNotations.
Local Open Scope N_scope.
Local Open Scope string_scope.

Definition bytes := list N.
Definition name := list N.

(* ------------------------------------------------------------------ Part 1: std::path (Unix) *)

Definition SEP : N := 47.   (* '/' *)
Definition DOT : N := 46.   (* '.' *)

Definition has_root (s : bytes) : bool :=
  match s with c :: _ => c =? SEP | [] => false end.

(* the segments between separators; never empty: split "" = [""] *)
Fixpoint split (s : bytes) : list bytes :=
  match s with
  | [] => [[]]
  | c :: r =>
      if c =? SEP then [] :: split r
      else match split r with
           | seg :: rest => (c :: seg) :: rest
           | [] => [[c]]
           end
  end.

Inductive comp : Type :=
| CRoot
| CCur
| CUp
| CNormal (n : name).

Definition is_dot (seg : bytes) : bool := bytes_eqb seg [DOT].
Definition is_dotdot (seg : bytes) : bool := bytes_eqb seg [DOT; DOT].

(* the component a segment stands for in the body of a path *)
Definition seg_comp (seg : bytes) : list comp :=
  match seg with
  | [] => []
  | _ => if is_dot seg then [] else if is_dotdot seg then [CUp] else [CNormal seg]
  end.

(* a plain file name: non-empty, no separator, neither "." nor ".." (what Component::Normal carries) *)
Definition plain_name (n : name) : bool :=
  negb (bytes_eqb n []) && negb (existsb (N.eqb SEP) n) && negb (is_dot n) && negb (is_dotdot n).

Definition body (s : bytes) : list comp := flat_map seg_comp (split s).

Definition front (s : bytes) : list comp :=
  if has_root s then [CRoot]
  else match split s with
       | seg :: _ => if is_dot seg then [CCur] else []
       | [] => []
       end.

Definition components (s : bytes) : list comp := front s ++ body s.

Definition need_sep (p : bytes) : bool :=
  match p with [] => false | _ => negb (last p 0 =? SEP) end.

(* PathBuf::push; Path::join a b = push a b *)
Definition push (p q : bytes) : bytes :=
  if has_root q then q
  else if need_sep p then p ++ SEP :: q
  else p ++ q.

(* the same on component lists (Proofs/Paths.v: components (push a b) = join_c (components a) (components b)) *)
Definition drop_cur (cs : list comp) : list comp :=
  match cs with CCur :: r => r | _ => cs end.

Definition join_c (a b : list comp) : list comp :=
  match b with
  | CRoot :: _ => b
  | _ => match a with [] => b | _ => a ++ drop_cur b end
  end.

(* rendering of a component list (used where the model has to hand a path on as bytes) *)
Definition comp_bytes (c : comp) : bytes :=
  match c with CRoot => [] | CCur => [DOT] | CUp => [DOT; DOT] | CNormal n => n end.

Fixpoint render_rel (cs : list comp) : bytes :=
  match cs with
  | [] => []
  | [c] => comp_bytes c
  | c :: r => comp_bytes c ++ SEP :: render_rel r
  end.

Definition render (cs : list comp) : bytes :=
  match cs with
  | CRoot :: r => SEP :: render_rel r
  | _ => render_rel cs
  end.

(* Path::parent: None for "" and for a path that ends in the root; otherwise the path without its last
   component.  std returns a sub-slice of the original bytes; the model returns a rendering with the same
   components (the only thing the callers look at). *)
Definition parent (s : bytes) : option bytes :=
  match rev (components s) with
  | [] => None
  | CRoot :: _ => None
  | _ :: r => Some (render (rev r))
  end.

(* ------------------------------------------------------------------ Part 2: resolution *)

(* without symlinks; [st] = names from "/" down to the current directory *)
Definition rstep (st : list name) (c : comp) : list name :=
  match c with
  | CRoot => []
  | CCur => st
  | CUp => removelast st
  | CNormal n => st ++ [n]
  end.

Definition resolve (start : list name) (cs : list comp) : list name := fold_left rstep cs start.

(* Resolution with symlinks.  [lk q] = the target of the symlink at the resolved path q (names from the root
   of the walk), if q is one.  [names] is the current directory, innermost first.  A link target is resolved
   in the directory of the link; an absolute one starts again from the root of the walk.  None = ELOOP. *)
Definition links := list name -> option bytes.

Fixpoint walk (lk : links) (budget : nat) {struct budget} : list comp -> list name -> option (list name) :=
  fix go (todo : list comp) (names : list name) {struct todo} : option (list name) :=
    match todo with
    | [] => Some names
    | c :: rest =>
        match c with
        | CRoot => go rest []
        | CCur => go rest names
        | CUp => go rest (tl names)
        | CNormal n =>
            match lk (rev (n :: names)) with
            | Some tgt =>
                match budget with
                | O => None
                | S b => walk lk b (components tgt ++ rest) names
                end
            | None => go rest (n :: names)
            end
        end
    end.

Definition no_links : links := fun _ => None.

Fixpoint names_eqb (a b : list name) : bool :=
  match a, b with
  | [], [] => true
  | x :: a', y :: b' => bytes_eqb x y && names_eqb a' b'
  | _, _ => false
  end.

Fixpoint is_prefix (p l : list name) : bool :=
  match p, l with
  | [], _ => true
  | x :: p', y :: l' => bytes_eqb x y && is_prefix p' l'
  | _ :: _, [] => false
  end.

(* ------------------------------------------------------------------ Part 3: the server's computations *)

Definition is_lhex (c : N) : bool :=
  ((48 <=? c) && (c <=? 57)) || ((97 <=? c) && (c <=? 102)).

(* Toolchain::archive_id_is_valid *)
Definition valid_id (id : bytes) : bool :=
  (2 <=? N.of_nat (length id)) && forallb is_lhex id.

(* UTF-8 continuation byte: not a char boundary *)
Definition is_cont (c : N) : bool := (128 <=? c) && (c <? 192).

(* make_lru_key_path key = Path::new(&key[0..1]).join(&key[1..2]).join(key); the slices panic unless
   1 and 2 are char boundaries within the string *)
Definition lru_key (key : bytes) : option bytes :=
  match key with
  | b0 :: b1 :: rest =>
      if is_cont b1 then None
      else if match rest with b2 :: _ => is_cont b2 | [] => false end then None
      else Some (push (push [b0] [b1]) key)
  | _ => None
  end.

(* join_suffix: the components still to be resolved and a stack of names (top first); a name that is a
   symlink below [path] is replaced by the components of its target (at most 40 times); then one push per
   name.  [lk] answers read_link for paths below [path]. *)
Definition MAX_LINKS : nat := 40.

Definition js_names (lk : links) (cs : list comp) : option (list name) :=
  match walk lk MAX_LINKS cs [] with
  | Some st => Some (rev st)
  | None => None
  end.

Definition join_suffix (lk : links) (path suffix : bytes) : option bytes :=
  match js_names lk (components suffix) with
  | Some ns => Some (fold_left push ns path)
  | None => None
  end.

(* the same without any symlink below [path] (the stack discipline alone) *)
Definition js_step (names : list name) (c : comp) : list name :=
  match c with
  | CRoot => []
  | CCur => names
  | CUp => tl names
  | CNormal n => n :: names
  end.

(* decimal rendering of the build counter (format!("{}", n)) *)
Fixpoint rdec (fuel : nat) (n : N) : bytes :=
  match fuel with
  | O => []
  | S f => (48 + n mod 10) :: (if n / 10 =? 0 then [] else rdec f (n / 10))
  end.

Definition dec (n : N) : bytes := rev (rdec (S (N.to_nat (N.log2 n))) n).

Definition s_toolchains : bytes := bs "toolchains".
Definition s_builds : bytes := bs "builds".
Definition s_work : bytes := bs "work".
Definition s_upper : bytes := bs "upper".
Definition s_target : bytes := bs "target".
Definition DASH : N := 45.

Definition build_name (id : bytes) (n : N) : bytes := id ++ DASH :: dec n.

Definition toolchain_dir (dir id : bytes) : bytes := push (push dir s_toolchains) id.
Definition build_dir (dir id : bytes) (n : N) : bytes := push (push dir s_builds) (build_name id n).
Definition target_dir (dir id : bytes) (n : N) : bytes := push (build_dir dir id n) s_target.

Inductive effect : Type :=
| Mkdir (p : bytes)       (* fs::create_dir *)
| MkdirAll (p : bytes)    (* fs::create_dir_all *)
| Open (p : bytes).       (* fs::File::open *)

Definition effect_path (e : effect) : bytes :=
  match e with Mkdir p | MkdirAll p | Open p => p end.

Fixpoint all_some {A} (l : list (option A)) : option (list A) :=
  match l with
  | [] => Some []
  | Some a :: r => match all_some r with Some l' => Some (a :: l') | None => None end
  | None :: _ => None
  end.

Definition opt_map {A B} (f : A -> B) (o : option A) : option B :=
  match o with Some a => Some (f a) | None => None end.

Definition output_dirs (lk : links) (target cwd : bytes) (outputs : list bytes) : list (option effect) :=
  flat_map (fun o => match parent o with
                     | Some par => [opt_map MkdirAll (join_suffix lk target (push cwd par))]
                     | None => []
                     end) outputs.

Definition output_opens (lk : links) (target cwd : bytes) (outputs : list bytes) : list (option effect) :=
  map (fun o => opt_map Open (join_suffix lk target (push cwd o))) outputs.

(* every path prepare_overlay_dirs + perform_build create or open for one job, in order; None = one of the
   join_suffix calls gave up (too many links), which aborts the job.  [lk0] = the symlinks in the job root
   when the directories are created (toolchain + unpacked inputs), [lk1] = those after the job has run. *)
Definition job_effects (lk0 lk1 : links) (dir id : bytes) (n : N) (cwd : bytes) (outputs : list bytes)
  : option (list effect) :=
  let b := build_dir dir id n in
  let t := push b s_target in
  all_some
    ([Some (Mkdir (toolchain_dir dir id)); Some (Mkdir b); Some (Mkdir (push b s_work));
      Some (Mkdir (push b s_upper)); Some (Mkdir t);
      opt_map MkdirAll (join_suffix lk0 t cwd)]
     ++ output_dirs lk0 t cwd outputs ++ output_opens lk1 t cwd outputs).

Inductive job_verdict : Type :=
| JBadId
| JTooManyLinks
| JOk (effs : list effect).

(* the guarded entry point: prepare_overlay_dirs refuses an invalid id before anything else *)
Definition job_paths (lk0 lk1 : links) (dir id : bytes) (n : N) (cwd : bytes) (outputs : list bytes) : job_verdict :=
  if valid_id id then
    match job_effects lk0 lk1 dir id n cwd outputs with Some e => JOk e | None => JTooManyLinks end
  else JBadId.

(* where TcCache puts a toolchain: LruDiskCache root joined with the key path; None = refused (fixed code) *)
Definition cache_file (cache_root id : bytes) : option bytes :=
  if valid_id id then
    match lru_key id with Some k => Some (push cache_root k) | None => None end
  else None.

(* ------------------------------------------------------------------ Part 4: build counters and live builds *)

Fixpoint blookup (k : bytes) (l : list (bytes * N)) : option N :=
  match l with
  | [] => None
  | (k', v) :: r => if bytes_eqb k k' then Some v else blookup k r
  end.

Fixpoint bremove (k : bytes) (l : list (bytes * N)) : list (bytes * N) :=
  match l with
  | [] => []
  | (k', v) :: r => if bytes_eqb k k' then bremove k r else (k', v) :: bremove k r
  end.

(* the map keeps its entries in the order they were made (oldest first: the `ctime` of DeflatedToolchain);
   incrementing a counter keeps the place, a (re)made entry goes to the end *)
Fixpoint bupd (k : bytes) (v : N) (l : list (bytes * N)) : list (bytes * N) :=
  match l with
  | [] => []
  | (k', v') :: r => if bytes_eqb k k' then (k', v) :: r else (k', v') :: bupd k v r
  end.

Definition bset (k : bytes) (v : N) (l : list (bytes * N)) : list (bytes * N) := bremove k l ++ [(k, v)].

Fixpoint bmem (k : bytes) (l : list bytes) : bool :=
  match l with [] => false | x :: r => bytes_eqb k x || bmem k r end.

Fixpoint bdel (k : bytes) (l : list bytes) : list bytes :=
  match l with [] => [] | x :: r => if bytes_eqb k x then bdel k r else x :: bdel k r end.

Record builder : Type := {
  dirmap : list (bytes * N);     (* toolchain_dir_map: id -> build_count, oldest entry first *)
  unpacked : list bytes;         (* toolchains/<id> directories that exist *)
  live : list bytes;             (* builds/<name> directories that exist *)
}.

Definition builder0 : builder := {| dirmap := []; unpacked := []; live := [] |}.

Inductive bop : Type :=
| BPrepare (id : bytes) (in_cache : bool) (cache_len : nat)
     (* prepare_overlay_dirs; in_cache: tccache.get succeeds; cache_len: tccache.len() *)
| BFinish (nm : bytes)                      (* finish_overlay of the build directory builds/<nm> *)
| BEvict (id : bytes).                      (* an unpacked toolchain and its map entry disappear *)

(* "if toolchain_dir_map.len() > tccache.len()": the older half of the entries is forgotten and their
   unpacked directories removed *)
Definition prune (cache_len : nat) (m : list (bytes * N)) (u : list bytes) : list (bytes * N) * list bytes :=
  if Nat.ltb cache_len (length m) then
    let k := Nat.div (length m) 2 in
    (skipn k m, fold_left (fun u e => bdel (fst e) u) (firstn k m) u)
  else (m, u).

(* prepare_overlay_dirs, under the map's lock: Some name = the build directory created.
   THE GUARD: fs::create_dir(build_dir) fails when the directory exists, i.e. when a job that is still running
   owns it (the counter restarts when the map entry of a toolchain is made anew). *)
Definition prepare (b : builder) (id : bytes) (in_cache : bool) (cache_len : nat) : builder * option bytes :=
  if negb (valid_id id) then (b, None)
  else
    let known := match blookup id (dirmap b) with Some _ => bmem id (unpacked b) | None => false end in
    let r :=
      if known then
        match blookup id (dirmap b) with
        | Some c => Some ({| dirmap := bupd id (c + 1) (dirmap b); unpacked := unpacked b; live := live b |}, c + 1)
        | None => None
        end
      else if bmem id (unpacked b) then None                 (* create_dir: AlreadyExists *)
      else if negb in_cache then
        (* the directory was created, then "expected toolchain, but not available" *)
        Some ({| dirmap := dirmap b; unpacked := id :: unpacked b; live := live b |}, 0)
      else
        let '(m, u) := prune cache_len (bset id 1 (dirmap b)) (id :: unpacked b) in
        Some ({| dirmap := m; unpacked := u; live := live b |}, 1)
    in
    match r with
    | None => (b, None)
    | Some (b', 0) => (b', None)
    | Some (b', c) =>
        let nm := build_name id c in
        if bmem nm (live b') then (b', None)                 (* create_dir(build_dir): AlreadyExists *)
        else ({| dirmap := dirmap b'; unpacked := unpacked b'; live := nm :: live b' |}, Some nm)
    end.

Definition bstep (b : builder) (o : bop) : builder * option bytes :=
  match o with
  | BPrepare id c n => prepare b id c n
  | BFinish nm => ({| dirmap := dirmap b; unpacked := unpacked b; live := bdel nm (live b) |}, None)
  | BEvict id => ({| dirmap := bremove id (dirmap b); unpacked := bdel id (unpacked b); live := live b |}, None)
  end.

Definition brun (ops : list bop) : builder := fold_left (fun b o => fst (bstep b o)) ops builder0.

(* ------------------------------------------------------------------ Part 5: a build server in a scratch root *)

Inductive node : Type :=
| NDir
| NFile (content : bytes)
| NLink (target : bytes).

Definition tree := list (list name * node).   (* resolved path below the job's root -> node; later entries first *)

Fixpoint tlookup (p : list name) (t : tree) : option node :=
  match t with
  | [] => None
  | (q, n) :: r => if names_eqb p q then Some n else tlookup p r
  end.

Definition is_file (t : tree) (p : list name) : bool :=
  match tlookup p t with Some (NFile _) => true | _ => false end.

Definition is_dir (t : tree) (p : list name) : bool :=
  match p with
  | [] => true
  | _ => match tlookup p t with Some NDir => true | _ => false end
  end.

Definition is_link (t : tree) (p : list name) : bool :=
  match tlookup p t with Some (NLink _) => true | _ => false end.

(* read_link below the job root *)
Definition tree_links (t : tree) : links :=
  fun p => match tlookup p t with Some (NLink tgt) => Some tgt | _ => None end.

(* prefixes of p, shortest first, without [] *)
Fixpoint prefixes (p : list name) : list (list name) :=
  match p with
  | [] => []
  | x :: r => [x] :: map (cons x) (prefixes r)
  end.

Definition proper_prefixes (p : list name) : list (list name) := removelast (prefixes p).

Definition has_nul (p : list name) : bool := existsb (existsb (N.eqb 0)) p.

(* create_dir_all below the root: fails when a prefix is a file; otherwise all prefixes become directories *)
Definition mkdir_all (t : tree) (p : list name) : option tree :=
  if has_nul p then None
  else if existsb (is_file t) (prefixes p) then None
  else Some (fold_left (fun t q => if is_dir t q then t else (q, NDir) :: t) (prefixes p) t).

(* writing a file the way tar's unpack and the stand-in job do: parents are created *)
Definition put_file (t : tree) (p : list name) (c : bytes) : option tree :=
  match p with
  | [] => None
  | _ =>
      if existsb (is_file t) (proper_prefixes p) then None
      else if is_dir t p then None
      else match mkdir_all t (removelast p) with
           | Some t' => Some ((p, NFile c) :: t')
           | None => None
           end
  end.

(* tar::Entry::unpack_in: members with a ".." component are skipped, root and "." components dropped *)
Definition tar_path (member : bytes) : option (list name) :=
  let cs := components member in
  if existsb (fun c => match c with CUp => true | _ => false end) cs then None
  else Some (flat_map (fun c => match c with CNormal n => [n] | _ => [] end) cs).

Inductive member : Type :=
| MFile (nm c : bytes)
| MDir (nm : bytes)
| MLink (nm tgt : bytes).   (* only at places where nothing else is and nothing is put below (generator) *)

Definition unpack1 (t : option tree) (m : member) : option tree :=
  match t with
  | None => None
  | Some t =>
      match m with
      | MFile nm c =>
          match tar_path nm with
          | None => Some t
          | Some [] => Some t
          | Some p => put_file t p c
          end
      | MDir nm =>
          match tar_path nm with
          | None => Some t
          | Some p => mkdir_all t p
          end
      | MLink nm tgt =>
          match tar_path nm with
          | None => Some t
          | Some [] => Some t
          | Some p => match mkdir_all t (removelast p) with
                      | Some t' => Some ((p, NLink tgt) :: t')
                      | None => None
                      end
          end
      end
  end.

(* the two toolchain archives of the hook: same layout, different content (kind 1, kind 2) *)
Definition tool_content (kind : N) : bytes := if kind =? 2 then bs "TOOL2" else bs "TOOL".
Definition toolchain_tree_of (kind : N) : tree :=
  [ ([bs "tc_lib"], NDir); ([bs "tc_bin"; bs "tool"], NFile (tool_content kind)); ([bs "tc_bin"], NDir) ].
Definition toolchain_tree : tree := toolchain_tree_of 1.

(* the names join_suffix leaves of a client path, in the job root [t]; None = too many links *)
Definition inside (t : tree) (cwd p : bytes) : option (list name) :=
  js_names (tree_links t) (components (push cwd p)).

(* the stand-in job's own view: lexical, ".." stops at its root *)
Definition inside_lex (cwd p : bytes) : list name :=
  rev (fold_left js_step (components (push cwd p)) []).

Inductive out_res : Type :=
| OErr
| OMissing
| OData (c : bytes).

Definition collect1 (t : tree) (cwd o : bytes) : out_res :=
  match inside t cwd o with
  | None => OErr
  | Some p =>
      if has_nul p then OErr
      else if existsb (is_file t) (proper_prefixes p) then OErr     (* ENOTDIR *)
      else match p with
           | [] => OErr                                              (* a directory: read fails *)
           | _ => match tlookup p t with
                  | Some (NFile c) => OData c
                  | Some NDir => OErr
                  | Some (NLink _) => OErr                           (* unreachable: p has no link component *)
                  | None => OMissing
                  end
           end
  end.

Fixpoint collect (t : tree) (cwd : bytes) (outs : list bytes) : option (list (bytes * bytes)) :=
  match outs with
  | [] => Some []
  | o :: r =>
      match collect1 t cwd o with
      | OErr => None
      | OMissing => collect t cwd r
      | OData c => match collect t cwd r with Some l => Some ((o, c) :: l) | None => None end
      end
  end.

Definition mkdir_in (t : tree) (cwd p : bytes) : option tree :=
  match inside t cwd p with
  | Some q => mkdir_all t q
  | None => None
  end.

(* the directories perform_build creates before the job starts *)
Definition make_dirs (t : tree) (cwd : bytes) (outs : list bytes) : option tree :=
  fold_left (fun acc o =>
               match acc with
               | None => None
               | Some t => match parent o with
                           | Some par => mkdir_in t cwd par
                           | None => Some t
                           end
               end) outs (match js_names (tree_links t) (components cwd) with
                          | Some q => mkdir_all t q
                          | None => None
                          end).

(* what the stand-in job does: write a file or make a symlink at a path relative to cwd, confined to its
   root; it never goes through a symlink *)
Inductive jwrite : Type :=
| WFile (p c : bytes)
| WLink (p tgt : bytes)
| WReplace (p tgt : bytes).   (* rm -rf p; ln -s tgt p *)

Definition job_write (t : tree) (cwd : bytes) (w : jwrite) : tree :=
  match w with
  | WFile wp c =>
      let p := inside_lex cwd wp in
      if existsb (is_link t) (proper_prefixes p) then t
      else if is_link t p then
        match p with [] => t | _ => (p, NFile c) :: t end
      else match put_file t p c with
           | Some t' => t'
           | None => t
           end
  | WLink wp tgt =>
      let p := inside_lex cwd wp in
      if existsb (is_link t) (proper_prefixes p) then t
      else match p with
           | [] => t
           | _ =>
               match tlookup p t with
               | Some _ => t
               | None =>
                   if existsb (is_file t) (proper_prefixes p) then t
                   else match mkdir_all t (removelast p) with
                        | Some t' => (p, NLink tgt) :: t'
                        | None => t
                        end
               end
           end
  | WReplace wp tgt =>
      let p := inside_lex cwd wp in
      if existsb (is_link t) (proper_prefixes p) then t
      else match p with
           | [] => t
           | _ =>
               (* everything at and below p goes *)
               let t0 := filter (fun e => negb (is_prefix p (fst e))) t in
               if existsb (is_file t0) (proper_prefixes p) then t0
               else match mkdir_all t0 (removelast p) with
                    | Some t' => (p, NLink tgt) :: t'
                    | None => t0
                    end
           end
  end.

Record held_job : Type := {
  h_key : N;
  h_name : bytes;       (* its build directory builds/<h_name> *)
  h_tree : tree;        (* its root after the compile's writes *)
  h_cwd : bytes;
  h_outs : list bytes;
}.

Record server : Type := {
  ovl_ok : bool;                      (* can an overlay be mounted on the server's build directory? (not when that
                                         directory itself lies on an overlay, e.g. the root of a container) *)
  cap : N;                            (* archives the TcCache has room for; 0 = no limit *)
  cached : list bytes;                (* toolchains in the TcCache, most recently stored first *)
  kinds : list (bytes * N);           (* which archive (1 or 2) a cached / unpacked id stands for *)
  jobs : list (N * bytes);            (* job_toolchains *)
  bld : builder;
  held : list held_job;               (* jobs whose compile is still running *)
}.

Definition server1 (ok : bool) (c : N) : server :=
  {| ovl_ok := ok; cap := c; cached := []; kinds := []; jobs := []; bld := builder0; held := [] |}.
Definition server0 (c : N) : server := server1 true c.

Definition with_jobs (s : server) (j : list (N * bytes)) : server :=
  {| ovl_ok := ovl_ok s; cap := cap s; cached := cached s; kinds := kinds s; jobs := j; bld := bld s; held := held s |}.
Definition with_bld (s : server) (b : builder) : server :=
  {| ovl_ok := ovl_ok s; cap := cap s; cached := cached s; kinds := kinds s; jobs := jobs s; bld := b; held := held s |}.
Definition with_held (s : server) (h : list held_job) : server :=
  {| ovl_ok := ovl_ok s; cap := cap s; cached := cached s; kinds := kinds s; jobs := jobs s; bld := bld s; held := h |}.

Fixpoint jlookup (j : N) (l : list (N * bytes)) : option bytes :=
  match l with
  | [] => None
  | (j', v) :: r => if j =? j' then Some v else jlookup j r
  end.

Fixpoint jremove (j : N) (l : list (N * bytes)) : list (N * bytes) :=
  match l with
  | [] => []
  | (j', v) :: r => if j =? j' then jremove j r else (j', v) :: jremove j r
  end.

Inductive assign_res := AReady | ANeed | AErr.
Inductive submit_res := SSkipped | SSuccess | SNotFound | SCannotCache.
Inductive run_res := RSkipped | RComplete | RNotFound | RErr | RRunning | RNotRunning.

(* handle_assign_job *)
Definition assign (s : server) (j : N) (id : bytes) : server * assign_res :=
  if negb (valid_id id) then (s, AErr)
  else
    (with_jobs s ((j, id) :: jobs s),
     if bmem id (cached s) then AReady else ANeed).

(* storing an archive in a cache with room for [cap] archives evicts the least recently stored ones
   (only cap = 0 (no limit) and cap = 1 are used by the correspondence legs) *)
Definition cache_store (c : N) (id : bytes) (l : list bytes) : list bytes :=
  if c =? 0 then id :: l else firstn (N.to_nat c) (id :: l).

(* handle_submit_toolchain; [genuine] = 0: the uploaded archive does not hash to the id; 1 / 2: it is the
   hook's first / second archive and hashes to the id *)
Definition submit (s : server) (j : N) (genuine : N) : server * submit_res :=
  match jlookup j (jobs s) with
  | None => (s, SNotFound)
  | Some id =>
      if bmem id (cached s) then (s, SSuccess)
      else if valid_id id && negb (genuine =? 0) then
        ({| ovl_ok := ovl_ok s; cap := cap s; cached := cache_store (cap s) id (cached s); kinds := (id, genuine) :: kinds s;
            jobs := jobs s; bld := bld s; held := held s |}, SSuccess)
      else (s, SCannotCache)
  end.

Record job_obs : Type := {
  o_head : N;                              (* 0 job, 1 start, 2 release *)
  o_assign : assign_res;
  o_submit : submit_res;
  o_run : run_res;
  o_target : option bytes;                 (* builds/<name>/target, once the job was started *)
  o_snap : tree;                           (* what the job found in its root *)
  o_outputs : list (bytes * bytes);
  o_cwd : bytes;                           (* of the request (for the launcher's argument vector) *)
  o_env : list (bytes * bytes);
}.

Record job_req : Type := {
  r_id : bytes;
  r_genuine : N;
  r_run : bool;
  r_cwd : bytes;
  r_outs : list bytes;
  r_inputs : list member;
  r_writes : list jwrite;
  r_env : list (bytes * bytes);            (* the client's environment variables *)
}.

(* ---- the launcher: bubblewrap is the one program the server starts ON THE HOST for a job.  Client data reaches
   it as ARGUMENTS only; a client variable is data for the sandboxed command (`--setenv K V`), never part of the
   launcher's own environment, which is the server's. *)
Definition has_byte (c : N) (b : bytes) : bool := existsb (N.eqb c) b.

(* "Skipping environment variable": names with '=' are dropped *)
Definition client_env (env : list (bytes * bytes)) : list (bytes * bytes) :=
  filter (fun e => negb (has_byte 61 (fst e))) env.

Definition s_setenv : bytes := bs "--setenv".

Definition bwrap_argv (target cwd : bytes) (env : list (bytes * bytes)) : list bytes :=
  [bs "--die-with-parent"; bs "--cap-drop"; bs "ALL"; bs "--unshare-user"; bs "--unshare-cgroup"; bs "--unshare-ipc";
   bs "--unshare-pid"; bs "--unshare-net"; bs "--unshare-uts"; bs "--bind"; target; bs "/"; bs "--proc"; bs "/proc";
   bs "--dev"; bs "/dev"; bs "--chdir"; cwd]
  ++ flat_map (fun e => [s_setenv; fst e; snd e]) (client_env env) ++ [bs "--"].

Record launch : Type := {
  l_env : list (bytes * bytes);      (* the environment the launcher process is started with *)
  l_argv : list bytes;
}.

(* Command::new(bubblewrap) ... .output(): the child inherits the server's environment *)
Definition spawn_launcher (server_env : list (bytes * bytes)) (target cwd : bytes) (env : list (bytes * bytes))
  (exe : bytes) (args : list bytes) : launch :=
  {| l_env := server_env; l_argv := bwrap_argv target cwd env ++ exe :: args |}.

Definition kind_of (s : server) (id : bytes) : N :=
  match blookup id (kinds s) with Some k => k | None => 1 end.

Inductive begun : Type :=
| BNotFound
| BFailed                                   (* prepare_overlay_dirs refused / failed: nothing of the job exists *)
| BAborted (nm : bytes)                     (* the build directory exists, the job did not get to its compile *)
| BRunning (nm : bytes) (t1 t2 : tree).     (* t1: what the compile found, t2: after its writes *)

(* handle_run_job with the overlay builder, up to the point where the compile has done its writes *)
Definition run_begin (s : server) (j : N) (r : job_req) : server * begun :=
  match jlookup j (jobs s) with
  | None => (s, BNotFound)
  | Some id =>
      let s1 := with_jobs s (jremove j (jobs s)) in
      let '(b', onm) := prepare (bld s1) id (bmem id (cached s1)) (length (cached s1)) in
      let s2 := with_bld s1 b' in
      match onm with
      | None => (s2, BFailed)
      | Some nm =>
          (* Overlay::writable(..).mount() fails: "Failed to mount overlay FS", the job is refused *)
          if negb (ovl_ok s) then (s2, BAborted nm) else
          match fold_left unpack1 (r_inputs r) (Some (toolchain_tree_of (kind_of s id))) with
          | None => (s2, BAborted nm)
          | Some t0 =>
              match make_dirs t0 (r_cwd r) (r_outs r) with
              | None => (s2, BAborted nm)
              | Some t1 =>
                  if existsb (N.eqb 0) (r_cwd r)                          (* --chdir argument *)
                     || existsb (fun e => has_byte 0 (fst e) || has_byte 0 (snd e)) (client_env (r_env r))
                  then (s2, BAborted nm)
                  else (s2, BRunning nm t1 (fold_left (fun t w => job_write t (r_cwd r) w) (r_writes r) t1))
              end
          end
      end
  end.

(* finish_overlay *)
Definition finish (s : server) (nm : bytes) : server := with_bld s (fst (bstep (bld s) (BFinish nm))).

Definition target_of (nm : bytes) : bytes := push (push s_builds nm) s_target.

(* the whole of handle_run_job *)
Definition run (s : server) (j : N) (r : job_req) : server * (run_res * option bytes * tree * list (bytes * bytes)) :=
  match run_begin s j r with
  | (s', BNotFound) => (s', (RNotFound, None, [], []))
  | (s', BFailed) => (s', (RErr, None, [], []))
  | (s', BAborted nm) => (finish s' nm, (RErr, None, [], []))
  | (s', BRunning nm t1 t2) =>
      match collect t2 (r_cwd r) (r_outs r) with
      | None => (finish s' nm, (RErr, Some (target_of nm), t1, []))
      | Some outs => (finish s' nm, (RComplete, Some (target_of nm), t1, outs))
      end
  end.

Definition assign_submit (s : server) (j : N) (r : job_req) : server * assign_res * submit_res :=
  let '(s1, a) := assign s j (r_id r) in
  let '(s2, sb) := match a with
                   | AReady => (s1, SSkipped)
                   | _ => submit s1 j (r_genuine r)
                   end in
  (s2, a, sb).

Definition do_job (s : server) (j : N) (r : job_req) : server * job_obs :=
  let '(s2, a, sb) := assign_submit s j r in
  if r_run r then
    let '(s3, (rr, tg, sn, outs)) := run s2 j r in
    (s3, {| o_head := 0; o_assign := a; o_submit := sb; o_run := rr; o_target := tg; o_snap := sn; o_outputs := outs;
           o_cwd := r_cwd r; o_env := r_env r |})
  else
    (s2, {| o_head := 0; o_assign := a; o_submit := sb; o_run := RSkipped; o_target := None; o_snap := []; o_outputs := [];
           o_cwd := r_cwd r; o_env := r_env r |}).

(* the same request, but the compile stays running until it is released *)
Definition do_start (s : server) (j key : N) (r : job_req) : server * job_obs :=
  let '(s2, a, sb) := assign_submit s j r in
  let ob rr tg sn := {| o_head := 1; o_assign := a; o_submit := sb; o_run := rr; o_target := tg; o_snap := sn;
                        o_outputs := []; o_cwd := r_cwd r; o_env := r_env r |} in
  if r_run r then
    match run_begin s2 j r with
    | (s', BNotFound) => (s', ob RNotFound None [])
    | (s', BFailed) => (s', ob RErr None [])
    | (s', BAborted nm) => (finish s' nm, ob RErr None [])
    | (s', BRunning nm t1 t2) =>
        (with_held s' ({| h_key := key; h_name := nm; h_tree := t2; h_cwd := r_cwd r; h_outs := r_outs r |} :: held s'),
         ob RRunning (Some (target_of nm)) t1)
    end
  else (s2, ob RSkipped None []).

Fixpoint take_held (key : N) (l : list held_job) : option (held_job * list held_job) :=
  match l with
  | [] => None
  | h :: r => if h_key h =? key then Some (h, r)
              else match take_held key r with
                   | Some (x, r') => Some (x, h :: r')
                   | None => None
                   end
  end.

Definition do_release (s : server) (key : N) : server * job_obs :=
  let ob rr outs := {| o_head := 2; o_assign := AReady; o_submit := SSkipped; o_run := rr; o_target := None;
                       o_snap := []; o_outputs := outs; o_cwd := []; o_env := [] |} in
  match take_held key (held s) with
  | None => (s, ob RNotRunning [])
  | Some (h, rest) =>
      let s' := finish (with_held s rest) (h_name h) in
      match collect (h_tree h) (h_cwd h) (h_outs h) with
      | None => (s', ob RErr [])
      | Some outs => (s', ob RComplete outs)
      end
  end.

Inductive sop : Type :=
| OJob (r : job_req)
| OStart (key : N) (r : job_req)
| ORelease (key : N).

(* job ids are handed out 1, 2, ... to job and start steps *)
Fixpoint do_ops (s : server) (j : N) (ops : list sop) : list (job_obs * server) :=
  match ops with
  | [] => []
  | OJob r :: rest => let '(s', o) := do_job s j r in (o, s') :: do_ops s' (j + 1) rest
  | OStart k r :: rest => let '(s', o) := do_start s j k r in (o, s') :: do_ops s' (j + 1) rest
  | ORelease k :: rest => let '(s', o) := do_release s k in (o, s') :: do_ops s' j rest
  end.

Definition do_jobs (s : server) (j : N) (rs : list job_req) : list (job_obs * server) :=
  do_ops s j (map OJob rs).
