(* RoConc.v — concurrent lookups against the lazily opened stores of a DiskCache (src/cache/disk.rs).

   Each store sits behind its own Mutex<LazyDiskCache>.  A lookup (DiskCache::get /
   get_preprocessor_cache_entry) runs on its own thread:
       lock()                      -- BLOCKS while another thread holds the store
       get_or_init()               -- the first holder opens the store: a directory scan that takes
                                      time (here: [scan] scheduler ticks during which the lock is held
                                      and any other thread may be scheduled)
       LruDiskCache::get           -- the lookup proper
       unlock
   A schedule is a list of thread numbers; scheduling a thread that waits for a held lock, or one that
   has finished, is a stutter.  The store's part of the DiskCache state changes when its holder finishes
   (nobody else can look at it while the lock is held). *)
From Coq Require Import List NArith Bool.
From Sccache Require Import Base.Sx Model.Lru Model.RoCache.
Import ListNotations.
Local Open Scope N_scope.

Inductive pc :=
| PStart                      (* not yet at lock() / waiting for it *)
| PHolding (left : nat)       (* holds the store's mutex; [left] more ticks of scanning to go *)
| PDone (r : out1).

Definition on_pp (o : op) : bool := match o with PpGet _ | PpPut _ => true | _ => false end.
Definition is_lookup (o : op) : bool := match o with Get _ | PpGet _ => true | _ => false end.

Record cst := {
  cdc : dc;
  lock_main : option nat;     (* thread holding the result store's mutex *)
  lock_pp : option nat;
  pcs : list pc
}.

Definition lock_of (w : bool) (c : cst) : option nat := if w then lock_pp c else lock_main c.

Definition set_lock (w : bool) (c : cst) (o : option nat) : cst :=
  {| cdc := cdc c; lock_main := if w then lock_main c else o; lock_pp := if w then o else lock_pp c;
     pcs := pcs c |}.

Fixpoint set_nth {A} (n : nat) (x : A) (l : list A) : list A :=
  match l, n with
  | [], _ => []
  | _ :: r, O => x :: r
  | y :: r, S n' => y :: set_nth n' x r
  end.

Definition set_pc (c : cst) (i : nat) (p : pc) : cst :=
  {| cdc := cdc c; lock_main := lock_main c; lock_pp := lock_pp c; pcs := set_nth i p (pcs c) |}.

Definition set_dc (c : cst) (d : dc) : cst :=
  {| cdc := d; lock_main := lock_main c; lock_pp := lock_pp c; pcs := pcs c |}.

(* one scheduler tick for thread i; [scan] = ticks an opening scan takes *)
Definition tstep (ops : list op) (scan : nat) (c : cst) (i : nat) : cst :=
  match nth_error ops i, nth_error (pcs c) i with
  | Some o, Some PStart =>
      let w := on_pp o in
      match lock_of w c with
      | Some _ => c                                   (* lock(): wait *)
      | None =>
          let cost := match store_of w (cdc c) with Some _ => O | None => scan end in
          set_pc (set_lock w c (Some i)) i (PHolding cost)
      end
  | Some o, Some (PHolding (S n)) => set_pc c i (PHolding n)
  | Some o, Some (PHolding O) =>
      let '(d', r) := step (cdc c) o in
      set_pc (set_lock (on_pp o) (set_dc c d') None) i (PDone r)
  | _, _ => c
  end.

Definition crun (ops : list op) (scan : nat) (c : cst) (sched : list nat) : cst :=
  fold_left (tstep ops scan) sched c.

Definition cstart (d : dc) (n : nat) : cst :=
  {| cdc := d; lock_main := None; lock_pp := None; pcs := repeat PStart n |}.

(* a schedule that lets every thread finish whatever happened before: rounds of 0..n-1 *)
Fixpoint rounds (n : nat) (k : nat) : list nat :=
  match k with O => [] | S k' => seq 0 n ++ rounds n k' end.

Definition result_of (c : cst) (i : nat) : option out1 :=
  match nth_error (pcs c) i with Some (PDone r) => Some r | _ => None end.

(* ---------- progress: no lookup waits forever ----------
   [phi] bounds the work that is left: a thread that has not reached its lock() owes the acquisition, a
   whole scan and the lookup; a holder owes the rest of its scan and the lookup.  [log] is the log level
   of the configuration (off .. trace): it is carried by the configuration and consulted by NOTHING in
   the model — what is logged, and whether, has no influence on locks, answers or the directory. *)
Definition cost (scan : nat) (p : pc) : nat :=
  match p with PStart => S (S scan) | PHolding n => S n | PDone _ => O end.

Definition phi (scan : nat) (c : cst) : nat := fold_right (fun p a => (cost scan p + a)%nat) O (pcs c).

Definition is_done (p : pc) : bool := match p with PDone _ => true | _ => false end.
Definition all_done (c : cst) : bool := forallb is_done (pcs c).

Inductive loglevel := LogOff | LogError | LogWarn | LogInfo | LogDebug | LogTrace.

Record conc_config := { cc_scan : nat; cc_log : loglevel }.

Definition crun_cfg (cfg : conc_config) (ops : list op) (c : cst) (sched : list nat) : cst :=
  crun ops (cc_scan cfg) c sched.
