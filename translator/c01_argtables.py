"""c01_argtables.py — tie T for property C01.

Re-reads from the repository working tree
  * src/compiler/gcc.rs     the `ArgData!` enum, `counted_array!(pub static ARGS ...)`, `const ARCH_FLAG`, and inside
                            `parse_arguments`: the no-effect arm of the first `match arg.get_data()`, the `-x` language
                            table, the second `match arg.get_data()` of the main loop (argument -> list), the
                            `match arg.get_data()` of the -Xclang loop; `language_to_gcc_arg`
  * src/compiler/clang.rs   `counted_array!(pub static ARGS ...)`, `language_to_clang_arg`
  * src/compiler/compiler.rs `enum Language`, `Language::from_file_name`
and writes coq/theories/Gen/C01ArgTables.v (pure data over Model/ArgTypes.v).

Everything is parsed from a token stream; every entry / arm / statement must match one of the known forms, otherwise
`Unrecognised` is raised (the pipeline turns that into a failed obligation — never into a pass).
"""
import os
import re


class Unrecognised(Exception):
    pass


# ---------------------------------------------------------------- lexer

TOK = re.compile(r'''
    (?P<ws>\s+)
  | (?P<lc>//[^\n]*)
  | (?P<str>b?"(?:[^"\\]|\\[\s\S])*")
  | (?P<chr>b?'(?:[^'\\]|\\.)')
  | (?P<life>'[A-Za-z_][A-Za-z0-9_]*)
  | (?P<id>[A-Za-z_][A-Za-z0-9_]*!?)
  | (?P<num>[0-9][0-9A-Za-z_]*)
  | (?P<op>=>|::|->|&&|\|\||==|!=|<=|>=|\.\.|[-+*/%^!&|=<>@.,;:\#$?~(){}\[\]])
''', re.X)


def lex(src):
    toks = []
    i = 0
    n = len(src)
    while i < n:
        if src.startswith('/*', i):
            depth = 1
            i += 2
            while i < n and depth:
                if src.startswith('/*', i):
                    depth += 1
                    i += 2
                elif src.startswith('*/', i):
                    depth -= 1
                    i += 2
                else:
                    i += 1
            continue
        mr = re.match(r'b?r(#*)"', src[i:i + 12])
        if mr and (i == 0 or not (src[i - 1].isalnum() or src[i - 1] == '_')):
            end = src.find('"' + mr.group(1), i + len(mr.group(0)))
            if end < 0:
                raise Unrecognised('unterminated raw string')
            toks.append(('rawstr', src[i:end + 1 + len(mr.group(1))]))
            i = end + 1 + len(mr.group(1))
            continue
        m = TOK.match(src, i)
        if not m:
            raise Unrecognised('cannot tokenise at %r' % src[i:i + 30])
        i = m.end()
        k = m.lastgroup
        if k in ('ws', 'lc'):
            continue
        toks.append((k, m.group(k)))
    return toks


OPEN = {'(': ')', '[': ']', '{': '}'}


def match_close(toks, i):
    """toks[i] is an opening bracket; return the index of its closing bracket."""
    want = []
    j = i
    while j < len(toks):
        t = toks[j][1] if toks[j][0] == 'op' else None
        if t in OPEN:
            want.append(OPEN[t])
        elif t in (')', ']', '}'):
            if not want or want[-1] != t:
                raise Unrecognised('unbalanced %s' % t)
            want.pop()
            if not want:
                return j
        j += 1
    raise Unrecognised('unclosed bracket')


def find_seq(toks, seq, start=0, end=None):
    end = len(toks) if end is None else end
    n = len(seq)
    for i in range(start, end - n + 1):
        if all(toks[i + k][1] == seq[k] for k in range(n)):
            return i
    return -1


def split_top(toks, sep=','):
    """split a token list at top-level separators"""
    out, cur, depth = [], [], 0
    for t in toks:
        if t[0] == 'op' and t[1] in OPEN:
            depth += 1
        elif t[0] == 'op' and t[1] in (')', ']', '}'):
            depth -= 1
        if depth == 0 and t[0] == 'op' and t[1] == sep:
            out.append(cur)
            cur = []
        else:
            cur.append(t)
    if cur:
        out.append(cur)
    return out


def text(toks):
    return ' '.join(t[1] for t in toks)


def unquote(s):
    assert s[0] == '"' and s[-1] == '"'
    body = s[1:-1]
    if '\\' in body:
        raise Unrecognised('escape in string literal %s' % s)
    if any(ord(c) < 32 or ord(c) > 126 for c in body):
        raise Unrecognised('non-printable string literal %s' % s)
    return body


# ---------------------------------------------------------------- items

def parse_argdata_enum(toks):
    i = find_seq(toks, ['ArgData!', '{', 'pub'])
    if i < 0:
        raise Unrecognised('ArgData! { pub ... } not found')
    j = match_close(toks, i + 1)
    out = []
    for item in split_top(toks[i + 3:j]):
        if len(item) == 1 and item[0][0] == 'id':
            out.append((item[0][1], None))
        elif len(item) == 4 and item[0][0] == 'id' and item[1][1] == '(' and item[3][1] == ')' and item[2][1] in ('OsString', 'PathBuf'):
            out.append((item[0][1], item[2][1]))
        else:
            raise Unrecognised('ArgData variant: ' + text(item))
    return out


def parse_consts(toks):
    consts = {}
    i = 0
    while True:
        i = find_seq(toks, ['const'], i)
        if i < 0:
            break
        # const NAME : & str = "..." ;
        if toks[i + 2][1] == ':' and toks[i + 3][1] == '&' and toks[i + 4][1] == 'str' and toks[i + 5][1] == '=' and toks[i + 6][0] == 'str':
            consts[toks[i + 1][1]] = unquote(toks[i + 6][1])
        elif toks[i + 2][1] == ':' and toks[i + 3][1] == 'usize' and toks[i + 4][1] == '=' and toks[i + 5][0] == 'num' and toks[i + 5][1].isdigit():
            consts[toks[i + 1][1]] = int(toks[i + 5][1])
        i += 1
    return consts


DISPS = ('Separated', 'CanBeSeparated', 'Concatenated', 'CanBeConcatenated')


def parse_table(toks, consts, variants, what):
    i = find_seq(toks, ['counted_array!', '(', 'pub', 'static', 'ARGS'])
    if i < 0:
        raise Unrecognised('%s: counted_array!(pub static ARGS ...) not found' % what)
    j = match_close(toks, i + 1)
    k = find_seq(toks, ['=', '['], i, j)
    if k < 0:
        raise Unrecognised('%s: table body not found' % what)
    e = match_close(toks, k + 1)
    vt = dict(variants)
    rows = []
    for item in split_top(toks[k + 2:e]):
        if len(item) < 3 or item[1][1] != '(' or item[-1][1] != ')':
            raise Unrecognised('%s: table entry %s' % (what, text(item)))
        args = split_top(item[2:-1])

        def flag_of(a):
            if len(a) == 1 and a[0][0] == 'str':
                return unquote(a[0][1])
            if len(a) == 1 and a[0][0] == 'id' and a[0][1] in consts:
                return consts[a[0][1]]
            raise Unrecognised('%s: flag spelling %s' % (what, text(a)))

        def ctor_of(a, want_value):
            if len(a) != 1 or a[0][0] != 'id' or a[0][1] not in vt:
                raise Unrecognised('%s: ArgData constructor %s' % (what, text(a)))
            c = a[0][1]
            if want_value is None and vt[c] is not None:
                raise Unrecognised('%s: flag! with a value constructor %s' % (what, c))
            if want_value is not None and vt[c] != want_value:
                raise Unrecognised('%s: take_arg! value type %s does not fit %s(%s)' % (what, want_value, c, vt[c]))
            return c

        if item[0][1] == 'flag!' and len(args) == 2:
            rows.append(('flag', flag_of(args[0]), None, None, None, ctor_of(args[1], None)))
        elif item[0][1] == 'take_arg!' and len(args) == 4:
            s = flag_of(args[0])
            if len(args[1]) != 1 or args[1][0][1] not in ('OsString', 'PathBuf'):
                raise Unrecognised('%s: value type %s' % (what, text(args[1])))
            vtype = args[1][0][1]
            d = args[2]
            if d[0][1] not in DISPS:
                raise Unrecognised('%s: disposition %s' % (what, text(d)))
            delim = None
            if len(d) == 1:
                pass
            elif len(d) == 4 and d[1][1] == '(' and d[3][1] == ')' and d[2][0] == 'chr' and len(d[2][1]) == 3 and d[0][1] != 'Separated':
                delim = ord(d[2][1][1])
                if delim >= 128:
                    raise Unrecognised('%s: non-ascii delimiter' % what)
            else:
                raise Unrecognised('%s: disposition %s' % (what, text(d)))
            rows.append(('take', s, vtype, d[0][1], delim, ctor_of(args[3], vtype)))
        else:
            raise Unrecognised('%s: table entry %s' % (what, text(item)))
    if not rows:
        raise Unrecognised('%s: empty table' % what)
    return rows


def fn_body(toks, name, prefix=()):
    i = find_seq(toks, list(prefix) + ['fn', name])
    if i < 0:
        raise Unrecognised('fn %s not found' % name)
    j = i
    depth = 0
    # skip the signature: the body is the first `{` at bracket depth 0 after the parameter list
    while j < len(toks):
        t = toks[j]
        if t[0] == 'op' and t[1] in ('(', '['):
            j = match_close(toks, j)
        elif t[0] == 'op' and t[1] == '{':
            return toks[j + 1:match_close(toks, j)]
        j += 1
    raise Unrecognised('fn %s has no body' % name)


def parse_arms(toks):
    """arms of a match body: list of (pattern tokens, body tokens)"""
    arms = []
    i = 0
    n = len(toks)
    while i < n:
        # pattern up to => at depth 0
        j = i
        depth = 0
        while j < n:
            t = toks[j]
            if t[0] == 'op' and t[1] in OPEN:
                j = match_close(toks, j)
            elif t[1] == '=>':
                break
            j += 1
        if j >= n:
            raise Unrecognised('match arm without =>: ' + text(toks[i:i + 12]))
        pat = toks[i:j]
        j += 1
        # body: a block, or an expression up to the next top-level comma
        if toks[j][1] == '{':
            e = match_close(toks, j)
            body = toks[j:e + 1]
            j = e + 1
            if j < n and toks[j][1] == ',':
                j += 1
        else:
            k = j
            while k < n:
                t = toks[k]
                if t[0] == 'op' and t[1] in OPEN:
                    k = match_close(toks, k)
                elif t[1] == ',':
                    break
                k += 1
            body = toks[j:k]
            j = k + 1
        arms.append((pat, body))
        i = j
    return arms


def pat_ctors(pat, variants):
    """`Some(A) | Some(B(_)) | Some(C(name))` -> [A, B, C];  `None` -> ['None']"""
    names = []
    vt = dict(variants)
    for alt in split_top(pat, '|'):
        s = [t[1] for t in alt]
        if s == ['None']:
            names.append('None')
        elif len(s) == 4 and s[0] == 'Some' and s[1] == '(' and s[3] == ')' and s[2] in vt and vt[s[2]] is None:
            names.append(s[2])
        elif len(s) == 7 and s[0] == 'Some' and s[1] == '(' and s[3] == '(' and s[5] == ')' and s[6] == ')' and s[2] in vt and vt[s[2]] is not None and re.match(r'^[a-z_][a-z0-9_]*$', s[4]):
            names.append(s[2])
        else:
            raise Unrecognised('match pattern: ' + text(alt))
    return names


LISTS = {'common_args': 'DCommon', 'unhashed_args': 'DUnhashed', 'arch_args': 'DArch',
         'preprocessor_args': 'DPre', 'dependency_args': 'DDep'}


def list_expr(body):
    s = [t[1] for t in body]
    if len(s) == 3 and s[0] == '&' and s[1] == 'mut' and s[2] in LISTS:
        return LISTS[s[2]]
    return None


EXTRA_HASH_STMT = 'extra_hash_files . push ( cwd . join ( path ) )'
TOO_HARD_STMT = ('too_hard_for_preprocessor_cache_mode = match arg . flag_str ( ) { Some ( s ) if s == "-Xpreprocessor" || s == "-Wp" '
                 '=> Some ( arg . to_os_string ( ) ) , _ => too_hard_for_preprocessor_cache_mode , }')


def arm_dest(body):
    """-> (dest, effect)"""
    d = list_expr(body)
    if d:
        return d, 'ENone'
    s = text(body)
    if s == 'continue':
        return 'DSkip', 'ENone'
    if s == 'unreachable! ( )':
        return 'DUnreachable', 'ENone'
    if body and body[0][1] == '{' and body[-1][1] == '}':
        stmts = split_top(body[1:-1], ';')
        if len(stmts) == 1 and list_expr(stmts[0]):
            return list_expr(stmts[0]), 'ENone'
        if len(stmts) == 2:
            d = list_expr(stmts[1])
            st = text(stmts[0])
            if d and st == EXTRA_HASH_STMT:
                return d, 'EExtraHash'
            if d and st == TOO_HARD_STMT:
                return d, 'ETooHardPP'
    raise Unrecognised('arm body of the classification match: ' + s[:300])


def find_match_after(toks, head, start=0):
    """index range of the body of `<head> { ... }` (head is a token sequence ending right before `{`)"""
    i = find_seq(toks, head + ['{'], start)
    if i < 0:
        raise Unrecognised('not found: ' + ' '.join(head))
    o = i + len(head)
    return o + 1, match_close(toks, o)


def parse_parse_arguments(toks, variants):
    body = fn_body(toks, 'parse_arguments', ['pub'])
    vt = dict(variants)
    # ---- main loop
    i = find_seq(body, ['for', 'arg', 'in', 'args_iter', '{'])
    if i < 0:
        raise Unrecognised('main loop `for arg in args_iter` not found')
    e = match_close(body, i + 4)
    loop = body[i + 5:e]
    # first match: statement `match arg.get_data() {`
    a, b = find_match_after(loop, ['match', 'arg', '.', 'get_data', '(', ')'])
    first = parse_arms(loop[a:b])
    noeffect = []
    effect = []
    lang_tbl = None
    for pat, bd in first:
        cs = pat_ctors(pat, variants)
        if text(bd) == '{ }':
            noeffect += cs
        else:
            effect += cs
        if cs == ['Language']:
            a2, b2 = find_match_after(bd, ['language', '=', 'match', 'lang', '.', 'to_string_lossy', '(', ')', '.', 'as_ref', '(', ')'])
            lang_tbl = []
            for p2, b2_ in parse_arms(bd[a2:b2]):
                ps = [t[1] for t in p2]
                bs_ = [t[1] for t in b2_]
                if len(p2) == 1 and p2[0][0] == 'str' and len(bs_) == 6 and bs_[:4] == ['Some', '(', 'Language', '::'] and bs_[5] == ')':
                    lang_tbl.append((unquote(p2[0][1]), bs_[4]))
                elif ps == ['_'] and text(b2_) == 'cannot_cache! ( "-x" )':
                    pass
                else:
                    raise Unrecognised('-x language arm: %s => %s' % (text(p2), text(b2_)))
    if lang_tbl is None:
        raise Unrecognised('-x language table not found')
    if 'None' in noeffect or 'None' not in effect:
        raise Unrecognised('first match: the None arm changed')
    # second match: `let args = match arg.get_data() {`
    a, b = find_match_after(loop, ['let', 'args', '=', 'match', 'arg', '.', 'get_data', '(', ')'])
    main = {}
    none_arm = None
    for pat, bd in parse_arms(loop[a:b]):
        cs = pat_ctors(pat, variants)
        if cs == ['None']:
            none_arm = bd
            continue
        d = arm_dest(bd)
        for c in cs:
            if c in main:
                raise Unrecognised('constructor %s classified twice' % c)
            main[c] = d
    missing = [c for c, _ in variants if c not in main]
    if missing:
        raise Unrecognised('main loop does not classify %s' % missing)
    if none_arm is None:
        raise Unrecognised('main loop: None arm missing')
    want_none = 'match arg { Argument :: Raw ( _ ) => continue , Argument :: UnknownFlag ( _ ) => & mut common_args , _ => unreachable! ( ) , }'
    if text(none_arm) != want_none:
        raise Unrecognised('main loop: None arm is ' + text(none_arm))
    # the statements after the match: normalisation rule
    tail = text(loop[b + 1:])
    want_tail = ('; let norm = match arg . flag_str ( ) { Some ( s ) if s . len ( ) == 2 => NormalizedDisposition :: Concatenated , '
                 '_ => NormalizedDisposition :: Separated , } ; args . extend ( arg . normalize ( norm ) . iter_os_strings ( ) ) ;')
    if tail != want_tail:
        raise Unrecognised('main loop: normalisation tail is ' + tail)
    # ---- the -Xclang loop
    i = find_seq(body, ['for', 'arg', 'in', 'ArgsIter', '::', 'new', '(', 'xclang_it', ',', '(', '&', 'ARGS', '[', '..', ']', ',', '&', 'clang', '::', 'ARGS', '[', '..', ']', ')', ')', '{'])
    if i < 0:
        raise Unrecognised('-Xclang loop not found')
    o = i + 25
    e = match_close(body, o)
    xloop = body[o + 1:e]
    a, b = find_match_after(xloop, ['let', 'args', '=', 'match', 'arg', '.', 'get_data', '(', ')'])
    xmain = {}
    xnone = None
    for pat, bd in parse_arms(xloop[a:b]):
        cs = pat_ctors(pat, variants)
        if cs == ['None']:
            xnone = bd
            continue
        s = text(bd)
        if s.startswith('cannot_cache! ('):
            d = ('XCannotCache', 'ENone')
        else:
            dd, eff = arm_dest(bd)
            if dd in ('DSkip', 'DUnreachable'):
                raise Unrecognised('-Xclang loop arm: ' + s)
            d = ('XList ' + dd, eff)
        for c in cs:
            if c in xmain:
                raise Unrecognised('-Xclang: constructor %s classified twice' % c)
            xmain[c] = d
    missing = [c for c, _ in variants if c not in xmain]
    if missing:
        raise Unrecognised('-Xclang loop does not classify %s' % missing)
    sx = text(xnone or [])
    if not re.match(r'^match arg \{ Argument :: Raw \( _ \) if follows_plugin_arg => & mut common_args , '
                    r'Argument :: Raw \( flag \) => cannot_cache! \( .* \) , '
                    r'Argument :: UnknownFlag \( flag \) => \{ cannot_cache! \( .* \) \} (?:, )?_ => unreachable! \( \) , \}$', sx):
        raise Unrecognised('-Xclang loop: None arm is ' + sx)
    xtail = text(xloop[b + 1:])
    want_xtail = ('; follows_plugin_arg = match arg . flag_str ( ) { Some ( s ) => s == "-plugin-arg" , _ => false , } ; '
                  'let norm = match arg . flag_str ( ) { Some ( s ) if s . len ( ) == 2 => NormalizedDisposition :: Concatenated , '
                  '_ => NormalizedDisposition :: Separated , } ; '
                  'for arg in arg . normalize ( norm ) . iter_os_strings ( ) { args . push ( "-Xclang" . into ( ) ) ; args . push ( arg ) }')
    if xtail != want_xtail:
        raise Unrecognised('-Xclang loop: tail is ' + xtail)
    return dict(noeffect=noeffect, lang_tbl=lang_tbl, main=main, xmain=xmain)


def parse_lang_to_arg(toks, name):
    body = fn_body(toks, name, ['pub'])
    a, b = find_match_after(body, ['match', 'lang'])
    out = {}
    for pat, bd in parse_arms(body[a:b]):
        ps = [t[1] for t in pat]
        if len(ps) != 3 or ps[0] != 'Language' or ps[1] != '::':
            raise Unrecognised('%s arm: %s' % (name, text(pat)))
        s = [t[1] for t in bd]
        if s == ['None']:
            out[ps[2]] = None
        elif len(s) == 4 and s[0] == 'Some' and bd[2][0] == 'str':
            out[ps[2]] = unquote(s[2])
        else:
            raise Unrecognised('%s arm body: %s' % (name, text(bd)))
    return out


def parse_language_enum(toks):
    i = find_seq(toks, ['pub', 'enum', 'Language', '{'])
    if i < 0:
        raise Unrecognised('enum Language not found')
    e = match_close(toks, i + 3)
    out = []
    for item in split_top(toks[i + 4:e]):
        if len(item) != 1 or item[0][0] != 'id':
            raise Unrecognised('Language variant ' + text(item))
        out.append(item[0][1])
    return out


def parse_from_file_name(toks):
    body = fn_body(toks, 'from_file_name')
    head = ['match', 'file', '.', 'extension', '(', ')', '.', 'and_then', '(', '|', 'e', '|', 'e', '.', 'to_str', '(', ')', ')']
    a, b = find_match_after(body, head)
    out = []
    seen_default = False
    for pat, bd in parse_arms(body[a:b]):
        ps = [t[1] for t in pat]
        if ps == ['e']:
            seen_default = True
            if [t[1] for t in bd][-2:] != ['None', '}']:
                raise Unrecognised('from_file_name default arm: ' + text(bd))
            continue
        s = [t[1] for t in bd]
        if not (len(s) == 6 and s[:4] == ['Some', '(', 'Language', '::'] and s[5] == ')'):
            raise Unrecognised('from_file_name arm body: ' + text(bd))
        for alt in split_top(pat, '|'):
            if len(alt) == 4 and alt[0][1] == 'Some' and alt[2][0] == 'str':
                out.append((unquote(alt[2][1]), s[4]))
            else:
                raise Unrecognised('from_file_name pattern: ' + text(alt))
    if not seen_default:
        raise Unrecognised('from_file_name: default arm missing')
    return out



# ---------------------------------------------------------------- c.rs: generate_hash_key (what reaches the two keys, and when)

FIELDS = {'common_args': 'DCommon', 'arch_args': 'DArch', 'preprocessor_args': 'DPre', 'dependency_args': 'DDep',
          'unhashed_args': 'DUnhashed'}


def parse_env_list(toks, what):
    i = find_seq(toks, ['static', 'CACHED_ENV_VARS'])
    if i < 0:
        raise Unrecognised('%s: static CACHED_ENV_VARS not found' % what)
    j = i
    while j < len(toks) and toks[j][1] != '[':
        j += 1
    e = match_close(toks, j)
    names = []
    for item in split_top(toks[j + 1:e]):
        if len(item) == 1 and item[0][0] == 'str':
            names.append(unquote(item[0][1]))
        else:
            raise Unrecognised('%s: CACHED_ENV_VARS entry %s' % (what, text(item)))
    if not names:
        raise Unrecognised('%s: CACHED_ENV_VARS is empty' % what)
    return names


def parse_generate_hash_key(c_toks, pp_toks):
    body = fn_body(c_toks, 'generate_hash_key', ['async'])
    stmts = [st for st in split_top(body, ';') if st]
    tx = [text(st) for st in stmts]
    # ---- the reference time of the "include is too new" guard is taken before anything else happens
    if not tx or tx[0] != 'let start_of_compilation = std :: time :: SystemTime :: now ( )':
        raise Unrecognised('generate_hash_key: the first statement is no longer `let start_of_compilation = SystemTime::now()`: ' + (tx[0][:200] if tx else ''))
    if sum(1 for k in range(len(body) - 1) if body[k][1] == 'start_of_compilation' and body[k + 1][1] in ('=', ':')) != 1:
        raise Unrecognised('generate_hash_key: start_of_compilation is bound more than once')

    def first(seq, name):
        k = find_seq(body, seq)
        if k < 0:
            raise Unrecognised('generate_hash_key: %s not found' % name)
        return k
    events = [('start_of_compilation', first(['start_of_compilation'], 'start_of_compilation')),
              ('preprocessor_cache_entry_hash_key', first(['preprocessor_cache_entry_hash_key', '('], 'pp key call')),
              ('preprocess', first(['.', 'preprocess', '('], 'the preprocessor run')),
              ('process_preprocessed_file', first(['process_preprocessed_file', '('], 'process_preprocessed_file')),
              ('hash_key', first(['hash_key', '('], 'hash_key call')),
              ('add_result', first(['.', 'add_result', '('], 'add_result'))]
    order = [n for n, _ in sorted(events, key=lambda e: e[1])]
    for call in ('process_preprocessed_file', 'add_result'):
        k = first([call, '('], call) if call == 'process_preprocessed_file' else first(['.', call, '('], call) + 1
        e = match_close(body, k + 1)
        if 'start_of_compilation' not in [t[1] for t in body[k + 1:e]]:
            raise Unrecognised('generate_hash_key: %s no longer receives start_of_compilation' % call)

    # ---- the two argument vectors
    def vector(name):
        comps = []
        seen = 0
        for st, t in zip(stmts, tx):
            s = [x[1] for x in st]
            if s[:4] == ['let', 'mut', name, '=']:
                if len(s) == 11 and s[4:6] == ['parsed_args', '.'] and s[6] in FIELDS and s[7:] == ['.', 'clone', '(', ')']:
                    comps.append(('KList', FIELDS[s[6]], None))
                    seen += 1
                else:
                    raise Unrecognised('generate_hash_key: initialisation of %s: %s' % (name, t[:200]))
            elif s[:2] == [name, '.']:
                seen += 1
                arg = s[4:-1]
                if arg and arg[-1] == ',':
                    arg = arg[:-1]
                if s[2] == 'extend' and len(arg) == 7 and arg[:2] == ['parsed_args', '.'] and arg[2] in FIELDS and arg[3:] == ['.', 'to_vec', '(', ')']:
                    comps.append(('KList', FIELDS[arg[2]], None))
                elif s[2] == 'push' and arg == ['cwd', '.', 'clone', '(', ')', '.', 'into_os_string', '(', ')']:
                    comps.append(('KCwd', None, None))
                elif s[2] == 'extend' and arg in (['profile_output_path'], ['profile_output_path', '.', 'clone', '(', ')']):
                    comps.append(('KProfileOutput', None, None))
                elif (s[2] == 'extend' and len(arg) == 23 and arg[:2] == ['parsed_args', '.'] and arg[2] in FIELDS
                      and arg[3:10] == ['.', 'iter', '(', ')', '.', 'filter', '('] and arg[10] == '|' and arg[12] == '|' and arg[13] == '!'
                      and arg[15] == '(' and arg[16] == arg[11] and arg[17:] == [')', ')', '.', 'cloned', '(', ')']):
                    comps.append(('KFiltered', FIELDS[arg[2]], arg[14]))
                elif (s[2] == 'retain' and len(arg) == 8 and arg[0] == '|' and arg[2] == '|' and arg[3] == '!' and arg[5] == '('
                      and arg[6] == arg[1] and arg[7] == ')'):
                    comps = [('KFiltered', d, arg[4]) if k == 'KList' else (k, d, pr) for k, d, pr in comps]
                else:
                    raise Unrecognised('generate_hash_key: statement on %s: %s' % (name, t[:300]))
        # the one recognised conditional statement: the working directory, when the configuration asks for it
        cond = ('if storage . preprocessor_cache_mode_config ( ) . hash_working_directory { %s . push ( cwd . clone ( ) . '
                'into_os_string ( ) ) ; }' % name)
        if cond in text(body):
            comps.append(('KCwd', None, None))
            seen += 1
        uses = sum(1 for k in range(len(body) - 1) if body[k][1] == name and body[k + 1][1] == '.')
        lets = sum(1 for k in range(2, len(body)) if body[k][1] == name and body[k - 1][1] == 'mut')
        if uses + lets != seen:
            raise Unrecognised('generate_hash_key: %s is also changed inside a nested block' % name)
        if not comps:
            raise Unrecognised('generate_hash_key: %s not found' % name)
        return comps
    pp_args = vector('preprocessor_and_arch_args')
    main_args = vector('common_and_arch_args')
    want_profile = ('let profile_output_path = if parsed_args . profile_generate { parsed_args . outputs . get ( "obj" ) . map ( | obj | '
                    'cwd . join ( & obj . path ) . into_os_string ( ) ) } else { None }')
    if want_profile not in tx:
        raise Unrecognised('generate_hash_key: profile_output_path changed')
    # ---- the environment handed to both key functions
    env_prefilter = None
    envst = [t for t in tx if t.startswith('let mut sorted_env_vars')]
    if envst == ['let mut sorted_env_vars = env_vars . clone ( )']:
        env_prefilter = None
    elif len(envst) == 1 and re.match(r'^let mut sorted_env_vars (: Vec < \( OsString , OsString \) > )?= env_vars \. iter \( \) \. filter \( \| \( (\w+) , _ \) \| '
                                      r'(\w+) \. contains \( \2 \. as_os_str \( \) \) \) \. cloned \( \) \. collect \( \)$', envst[0]):
        env_prefilter = re.search(r'\| (\w+) \. contains', envst[0]).group(1)
        if env_prefilter != 'CACHED_ENV_VARS':
            raise Unrecognised('generate_hash_key: environment filtered by an unknown list ' + env_prefilter)
    else:
        raise Unrecognised('generate_hash_key: sorted_env_vars is built differently: %r' % envst)
    if 'sorted_env_vars . sort ( )' not in tx:
        raise Unrecognised('generate_hash_key: sorted_env_vars is no longer sorted')
    all_text = text(body)
    want_main = ('hash_key ( & executable_digest , parsed_args . language , & common_and_arch_args , & extra_hashes , & sorted_env_vars , '
                 '& preprocessor_result . stdout , compiler . plusplus ( ) , )')
    want_pp = ('preprocessor_cache_entry_hash_key ( & executable_digest , parsed_args . language , & preprocessor_and_arch_args , & extra_hashes , '
               '& sorted_env_vars , & absolute_input_path , compiler . plusplus ( ) , preprocessor_cache_mode_config , )')
    if want_main not in all_text:
        raise Unrecognised('generate_hash_key: the arguments of the hash_key call changed')
    if want_pp not in all_text:
        raise Unrecognised('generate_hash_key: the arguments of the preprocessor_cache_entry_hash_key call changed')
    return dict(key_order=order, pp_key_args=pp_args, main_key_args=main_args, env_prefilter=env_prefilter,
                main_key_env=parse_env_list(c_toks, 'c.rs'), pp_key_env=parse_env_list(pp_toks, 'preprocessor_cache.rs'))



# ---------------------------------------------------------------- the environment of the two compiler commands

def parse_command_env(gcc_toks, comp_toks):
    """preprocess_cmd (gcc.rs) and SingleCompileCommand::execute (compiler.rs): is the child's environment the client's and
    nothing else, i.e. `.env_clear()` before the one `.envs(<client variables>)`?  -> (preprocess, compile) booleans"""
    def cleared(body, what):
        t = text(body)
        n_envs = t.count('. envs (')
        n_env1 = t.count('. env (')
        if n_envs != 1 or n_env1 != 0:
            raise Unrecognised('%s: the command environment is built differently (%d envs, %d env calls)' % (what, n_envs, n_env1))
        i_clear = t.find('. env_clear ( )')
        return 0 <= i_clear < t.find('. envs (')
    pre = cleared(fn_body(gcc_toks, 'preprocess_cmd'), 'preprocess_cmd')
    i = find_seq(comp_toks, ['impl', 'CompileCommandImpl', 'for', 'SingleCompileCommand'])
    if i < 0:
        raise Unrecognised('impl CompileCommandImpl for SingleCompileCommand not found')
    j = i
    while comp_toks[j][1] != '{':
        j += 1
    impl = comp_toks[j + 1:match_close(comp_toks, j)]
    comp = cleared(fn_body(impl, 'execute', ['async']), 'SingleCompileCommand::execute')
    return pre, comp


# ---------------------------------------------------------------- reading the hand-written Coq side

def coq_ctor_list(argtypes_v, name):
    src = open(argtypes_v).read()
    src = re.sub(r'\(\*.*?\*\)', ' ', src, flags=re.S)
    m = re.search(r'Inductive\s+%s\s*:=(.*?)\.\s' % name, src, re.S)
    if not m:
        raise Unrecognised('Inductive %s not found in ArgTypes.v' % name)
    return [c.strip().split()[0] for c in m.group(1).split('|') if c.strip()]


# ---------------------------------------------------------------- emit

def coq_bytes(s):
    if '"' in s:
        raise Unrecognised('quote in spelling %r' % s)
    return '(bs "%s")' % s


def coq_disp(d, delim):
    if d == 'Separated':
        return 'Separated'
    return '(%s %s)' % (d, 'None' if delim is None else '(Some %d)' % delim)


def coq_row(r):
    kind, s, vtype, d, delim, c = r
    if kind == 'flag':
        return 'IFlag %s %s' % (coq_bytes(s), c)
    return 'ITake %s V%s %s %s' % (coq_bytes(s), vtype, coq_disp(d, delim), c)


def read_all(repo, strict=True):
    def toks_of(rel):
        return lex(open(os.path.join(repo, rel), encoding='utf-8').read())
    gcc = toks_of('src/compiler/gcc.rs')
    clang = toks_of('src/compiler/clang.rs')
    comp = toks_of('src/compiler/compiler.rs')
    variants = parse_argdata_enum(gcc)
    consts = parse_consts(gcc)
    spec = dict(variants=variants,
                gcc=parse_table(gcc, consts, variants, 'gcc.rs'),
                clang=parse_table(clang, consts, variants, 'clang.rs'),
                langs=parse_language_enum(comp),
                from_ext=parse_from_file_name(comp),
                lang_gcc=parse_lang_to_arg(gcc, 'language_to_gcc_arg'),
                lang_clang=parse_lang_to_arg(clang, 'language_to_clang_arg'),
                arch_flag=consts.get('ARCH_FLAG'),
                expand_limit=consts.get('MAX_INCLUDE_FILE_EXPANSIONS'))
    if not isinstance(spec['expand_limit'], int):
        raise Unrecognised('const MAX_INCLUDE_FILE_EXPANSIONS: usize not found')
    want = 'if self . expansions_left == 0 { return Some ( arg ) ; } self . expansions_left - = 1 ;'
    m = re.search(r"if contents \. contains \( ('(?:[^'\\]|\\.)') \)((?: \|\| contents \. contains \( '(?:[^'\\]|\\.)' \))*) \{ return Some \( arg \) ; \}", text(gcc))
    if not m:
        raise Unrecognised('ExpandIncludeFile::next: the test for characters that stop the expansion changed')
    lits = []
    for lit in re.findall(r"'((?:[^'\\]|\\.))'", m.group(0)):
        c = {'\\\'': "'", '\\\\': '\\', '"': '"'}.get(lit, lit)
        if len(c) != 1 or ord(c) > 126:
            raise Unrecognised('ExpandIncludeFile::next: character literal %r' % lit)
        lits.append(ord(c))
    spec['rsp_literal'] = lits
    if want not in text(gcc) or 'expansions_left : MAX_INCLUDE_FILE_EXPANSIONS ,' not in text(gcc):
        raise Unrecognised('ExpandIncludeFile::next: the expansion bound changed')
    spec.update(parse_parse_arguments(gcc, variants))
    try:
        spec.update(parse_generate_hash_key(toks_of('src/compiler/c.rs'), toks_of('src/compiler/preprocessor_cache.rs')))
        spec['env_cleared'] = parse_command_env(gcc, comp)
    except Unrecognised:
        if strict:
            raise          # the generators only need the tables: they go on with strict=False when the key part is unreadable
    if spec['arch_flag'] is None:
        raise Unrecognised('const ARCH_FLAG not found')
    return spec


def emit(spec, argtypes_v):
    want = coq_ctor_list(argtypes_v, 'argdata')
    have = [c for c, _ in spec['variants']]
    if want != have:
        raise Unrecognised('ArgData constructors changed: Rust %s vs Model/ArgTypes.v %s' % (have, want))
    wantl = [c[1:] for c in coq_ctor_list(argtypes_v, 'lang')]
    if wantl != spec['langs']:
        raise Unrecognised('Language constructors changed: Rust %s vs Model/ArgTypes.v %s' % (spec['langs'], wantl))
    for tbl in ('lang_gcc', 'lang_clang'):
        if sorted(spec[tbl]) != sorted(spec['langs']):
            raise Unrecognised('%s does not cover every Language' % tbl)
    L = []
    A = L.append
    A('(* GENERATED by translator/c01_argtables.py from src/compiler/{gcc,clang,compiler}.rs — do not edit. *)')
    A('From Coq Require Import List NArith.')
    A('From Coq Require String.')
    A('Import String.StringSyntax.')
    A('From Sccache Require Import Base.Sx Model.ArgTypes.')
    A('Import ListNotations.')
    A('Local Open Scope string_scope.')
    A('Local Open Scope N_scope.')
    A('')
    A('Definition argdata_value (c : argdata) : option vtype :=')
    A('  match c with')
    for c, t in spec['variants']:
        A('  | %s => %s' % (c, 'None' if t is None else 'Some V' + t))
    A('  end.')
    A('')
    for name in ('gcc', 'clang'):
        A('Definition %s_args : list arginfo :=' % name)
        A('  [ ' + ';\n    '.join(coq_row(r) for r in spec[name]) + ' ].')
        A('')
    A('Definition arch_flag : bytes := %s.' % coq_bytes(spec['arch_flag']))
    A('Definition expand_limit : N := %d.' % spec['expand_limit'])
    A('Definition rsp_literal_chars : list N := [ %s ].' % '; '.join(str(c) for c in spec['rsp_literal']))
    A('')
    A('(* arms `=> {}` of the first match of the main loop: constructors without any effect on the parser state *)')
    A('Definition noeffect_class : list argdata := [ %s ].' % '; '.join(spec['noeffect']))
    A('')
    A('Definition main_dest (c : argdata) : dest * arm_effect :=')
    A('  match c with')
    for c, _ in spec['variants']:
        A('  | %s => (%s, %s)' % (c, spec['main'][c][0], spec['main'][c][1]))
    A('  end.')
    A('')
    A('Definition xclang_dest (c : argdata) : xdest * arm_effect :=')
    A('  match c with')
    for c, _ in spec['variants']:
        A('  | %s => (%s, %s)' % (c, spec['xmain'][c][0], spec['xmain'][c][1]))
    A('  end.')
    A('')
    A('Definition x_lang_table : list (bytes * lang) :=')
    A('  [ ' + ';\n    '.join('(%s, L%s)' % (coq_bytes(s), l) for s, l in spec['lang_tbl']) + ' ].')
    A('')
    A('Definition ext_lang_table : list (bytes * lang) :=')
    A('  [ ' + ';\n    '.join('(%s, L%s)' % (coq_bytes(s), l) for s, l in spec['from_ext']) + ' ].')
    A('')
    for tbl, nm in (('lang_gcc', 'language_to_gcc_arg'), ('lang_clang', 'language_to_clang_arg')):
        A('Definition %s (l : lang) : option bytes :=' % nm)
        A('  match l with')
        for l in spec['langs']:
            v = spec[tbl][l]
            A('  | L%s => %s' % (l, 'None' if v is None else 'Some ' + coq_bytes(v)))
        A('  end.')
        A('')

    def comp(c):
        k, d, pr = c
        if k == 'KList':
            return 'KList ' + d
        if k == 'KFiltered':
            return 'KFiltered %s %s' % (d, coq_bytes(pr))
        if k == 'KCwd':
            return 'KCwd'
        return 'KProfileOutput'
    A('(* c.rs generate_hash_key: what is put into the argument vectors of the two keys, the environment both key')
    A('   functions receive, and the order of the steps (the "include too new" reference time comes first) *)')
    A('Definition pp_key_args : list keycomp := [ %s ].' % '; '.join(comp(c) for c in spec['pp_key_args']))
    A('Definition main_key_args : list keycomp := [ %s ].' % '; '.join(comp(c) for c in spec['main_key_args']))
    A('Definition main_key_env : list bytes := [ %s ].' % '; '.join(coq_bytes(n) for n in spec['main_key_env']))
    A('Definition pp_key_env : list bytes := [ %s ].' % '; '.join(coq_bytes(n) for n in spec['pp_key_env']))
    A('Definition env_prefilter : option (list bytes) := %s.' % ('None' if spec['env_prefilter'] is None else 'Some main_key_env'))
    A('Definition key_order : list bytes := [ %s ].' % '; '.join(coq_bytes(n) for n in spec['key_order']))
    A('(* `.env_clear()` precedes `.envs(client variables)` in preprocess_cmd / SingleCompileCommand::execute *)')
    A('Definition preprocess_env_cleared : bool := %s.' % ('true' if spec['env_cleared'][0] else 'false'))
    A('Definition compile_env_cleared : bool := %s.' % ('true' if spec['env_cleared'][1] else 'false'))
    A('')
    return '\n'.join(L)


def main(repo, gen_dir, argtypes_v):
    spec = read_all(repo)
    txt = emit(spec, argtypes_v)
    os.makedirs(gen_dir, exist_ok=True)
    p = os.path.join(gen_dir, 'C01ArgTables.v')
    old = open(p).read() if os.path.exists(p) else None
    if old != txt:
        open(p, 'w').write(txt)
    return spec


if __name__ == '__main__':
    import sys
    here = os.path.dirname(os.path.dirname(os.path.abspath(__file__)))
    s = main(sys.argv[1] if len(sys.argv) > 1 else '/repo', os.path.join(here, 'coq', 'theories', 'Gen'),
             os.path.join(here, 'coq', 'theories', 'Model', 'ArgTypes.v'))
    print('gcc %d entries, clang %d entries' % (len(s['gcc']), len(s['clang'])))
