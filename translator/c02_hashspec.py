"""c02_hashspec.py — tie T for property C02.

Re-reads from the repository working tree
  * src/compiler/c.rs                  `CACHE_VERSION`, `CACHED_ENV_VARS`, the ordered statements of `hash_key`
  * src/compiler/preprocessor_cache.rs `FORMAT_VERSION`, `CACHED_ENV_VARS`, the ordered statements of
                                       `preprocessor_cache_entry_hash_key`
  * src/compiler/compiler.rs           the `Language::as_str` table
and writes coq/theories/Gen/C02HashSpec.v (pure data: `the_spec : KeyEnc.spec`) and
coq/theories/Gen/C02HashSpec_ok.v (the decidable side conditions, each closed by `vm_compute; reflexivity`).

The functions are parsed statement by statement; every statement must match one of the known forms, otherwise
`Unrecognised` is raised (the pipeline turns that into a failed obligation — never into a pass).  Parameter names are
taken from the function signatures (by type), loop variable names are free, so renamings are harmless.
"""
import os
import re


class Unrecognised(Exception):
    pass


# ---------------------------------------------------------------- a small Rust lexer (comments, strings, nesting)

def strip_comments(src):
    out = []
    i = 0
    n = len(src)
    while i < n:
        c = src[i]
        if src.startswith('//', i):
            j = src.find('\n', i)
            i = n if j < 0 else j
        elif src.startswith('/*', i):
            depth = 1
            i += 2
            while i < n and depth:
                if src.startswith('/*', i):
                    depth += 1
                    i += 2
                elif src.startswith('*/', i):
                    depth -= 1
                    i += 2
                else:
                    i += 1
            out.append(' ')
        elif c == '"':
            j = skip_string(src, i)
            out.append(src[i:j])
            i = j
        elif c == "'" and re.match(r"'(\\.|[^\\'])'", src[i:i + 4]):
            m = re.match(r"'(\\.|[^\\'])'", src[i:i + 4])
            out.append(m.group(0))
            i += len(m.group(0))
        else:
            out.append(c)
            i += 1
    return ''.join(out)


def skip_string(src, i):
    """src[i] == '"'; returns the index just after the closing quote."""
    j = i + 1
    while j < len(src):
        if src[j] == '\\':
            j += 2
        elif src[j] == '"':
            return j + 1
        else:
            j += 1
    raise Unrecognised('unterminated string literal')


def match_close(src, i, open_c, close_c):
    """src[i] == open_c; returns the index of the matching close_c (string-aware)."""
    depth = 0
    j = i
    while j < len(src):
        c = src[j]
        if c == '"':
            j = skip_string(src, j)
            continue
        if c == open_c:
            depth += 1
        elif c == close_c:
            depth -= 1
            if depth == 0:
                return j
        j += 1
    raise Unrecognised('unbalanced %s' % open_c)


def norm(stmt):
    """Canonical spelling of a statement: whitespace collapsed, none around punctuation (string literals kept)."""
    parts = []
    i = 0
    cur = []
    while i < len(stmt):
        if stmt[i] == '"':
            j = skip_string(stmt, i)
            parts.append(('t', ''.join(cur)))
            parts.append(('s', stmt[i:j]))
            cur = []
            i = j
        else:
            cur.append(stmt[i])
            i += 1
    parts.append(('t', ''.join(cur)))
    out = []
    for kind, t in parts:
        if kind == 't':
            t = re.sub(r'\s+', ' ', t)
            t = re.sub(r' ?([(){}\[\],;:.&=<>!?|*+-]) ?', r'\1', t)
        out.append(t)
    return ''.join(out).strip()


def split_statements(body):
    """Top-level statements of a block body (without the outer braces).  `for`/`if`/`while`/`loop`/`match` blocks end
    at their closing brace (an `if` continues through `else`); everything else ends at `;`.  The trailing expression
    (no `;`) is the last statement."""
    stmts = []
    i = 0
    n = len(body)
    while i < n:
        while i < n and body[i].isspace():
            i += 1
        if i >= n:
            break
        start = i
        head = re.match(r'(for|if|while|loop|match)\b', body[i:])
        while i < n:
            c = body[i]
            if c == '"':
                i = skip_string(body, i)
                continue
            if c in '([{':
                close = {'(': ')', '[': ']', '{': '}'}[c]
                j = match_close(body, i, c, close)
                i = j + 1
                if c == '{' and head:
                    rest = body[i:].lstrip()
                    if head.group(1) == 'if' and re.match(r'else\b', rest):
                        continue
                    break
                continue
            if c == ';':
                i += 1
                break
            i += 1
        s = body[start:i].strip()
        if s.endswith(';'):
            s = s[:-1].strip()
        if s:
            stmts.append(s)
    return stmts


def block_of(stmt):
    """`HEAD { BODY }` -> (HEAD, BODY) for a statement that ends with its block."""
    i = 0
    while i < len(stmt):
        if stmt[i] == '"':
            i = skip_string(stmt, i)
            continue
        if stmt[i] == '{':
            j = match_close(stmt, i, '{', '}')
            if stmt[j + 1:].strip():
                raise Unrecognised('text after block: %r' % stmt[j + 1:][:60])
            return stmt[:i].strip(), stmt[i + 1:j]
        i += 1
    raise Unrecognised('no block in %r' % stmt[:80])


# ---------------------------------------------------------------- items

def read(repo, rel):
    with open(os.path.join(repo, rel), encoding='utf-8') as f:
        return f.read()


def item_at(src, regex, what):
    """Find `regex` in the raw source (must occur exactly once) and return the comment-free text from its start.
    Lexing starts at the item, so exotic literals elsewhere in the file cannot desynchronise it."""
    ms = list(re.finditer(regex, src, re.M))
    ms = [m for m in ms if '//' not in src[src.rfind('\n', 0, m.start()) + 1:m.start()]]
    if len(ms) != 1:
        raise Unrecognised('%s: expected exactly one occurrence, found %d' % (what, len(ms)))
    start = ms[0].start()
    ls = src.rfind('\n', 0, start) + 1
    indent = re.match(r'[ \t]*', src[ls:]).group(0)
    first_line_end = src.find('\n', start)
    if first_line_end < 0:
        first_line_end = len(src)
    if src[start:first_line_end].rstrip().endswith(';'):
        end = first_line_end                    # a one-line item
    else:
        m = re.compile(r'^%s\}\)?;?[ \t]*$' % re.escape(indent), re.M).search(src, first_line_end)
        end = m.end() if m else len(src)        # rustfmt puts the item's closing brace at the item's indentation
    return strip_comments(src[start:end])


def rust_bytes_literal(lit):
    """b"..." or "..." -> bytes (only the escapes that occur in such tables)."""
    m = re.fullmatch(r'b?"((?:\\.|[^"\\])*)"', lit.strip())
    if not m:
        raise Unrecognised('string literal expected: %r' % lit[:60])
    s = m.group(1)
    out = bytearray()
    i = 0
    while i < len(s):
        if s[i] == '\\':
            e = s[i + 1]
            if e == 'x':
                out.append(int(s[i + 2:i + 4], 16))
                i += 4
                continue
            table = {'n': 10, 'r': 13, 't': 9, '0': 0, '\\': 92, '"': 34, "'": 39}
            if e not in table:
                raise Unrecognised('escape \\%s' % e)
            out.append(table[e])
            i += 2
        else:
            out += s[i].encode('utf-8')
            i += 1
    return bytes(out)


def const_bytes(src, name):
    src = item_at(src, r'\bconst\s+%s\b' % name, 'const ' + name)
    m = re.match(r'const\s+%s\s*:\s*&\s*\[\s*u8\s*\]\s*=\s*(b"(?:\\.|[^"\\])*")\s*;' % name, src)
    if not m:
        raise Unrecognised('const %s: &[u8] = b"..." not found' % name)
    return rust_bytes_literal(m.group(1))


def const_u8(src, name):
    src = item_at(src, r'\bconst\s+%s\b' % name, 'const ' + name)
    m = re.match(r'const\s+%s\s*:\s*u8\s*=\s*([0-9]+|0x[0-9a-fA-F]+)\s*;' % name, src)
    if not m:
        raise Unrecognised('const %s: u8 = <int> not found' % name)
    v = int(m.group(1), 0)
    if not 0 <= v < 256:
        raise Unrecognised('const %s out of range' % name)
    return bytes([v])


def env_allow_list(src, name='CACHED_ENV_VARS'):
    src = item_at(src, r'\bstatic\s+%s\b' % name, 'static ' + name)
    m = re.match(r'static\s+%s\s*:\s*Lazy\s*<\s*HashSet\s*<\s*&\s*\'static\s+OsStr\s*>\s*>\s*=\s*Lazy::new\s*\(\s*\|\|\s*\{' % name, src)
    if not m:
        raise Unrecognised('static %s: Lazy<HashSet<&\'static OsStr>> not found' % name)
    o = m.end() - 1
    c = match_close(src, o, '{', '}')
    body = src[o + 1:c]
    b = norm(body)
    mm = re.fullmatch(r'\[(.*)\]\.iter\(\)\.map\(OsStr::new\)\.collect\(\)', b, re.S)
    if not mm:
        raise Unrecognised('%s initialiser is not `[ "..", ].iter().map(OsStr::new).collect()`: %r' % (name, b[:120]))
    items = []
    inner = mm.group(1)
    pos = 0
    while pos < len(inner):
        if inner[pos] == ',':
            pos += 1
            continue
        if inner[pos] != '"':
            raise Unrecognised('%s: string literal expected at %r' % (name, inner[pos:pos + 30]))
        j = skip_string(inner, pos)
        items.append(rust_bytes_literal(inner[pos:j]))
        pos = j
    if not items:
        raise Unrecognised('%s is empty' % name)
    return items


def language_table(src):
    """[(variant name, tag bytes)] in the order of the `enum Language` declaration."""
    raw = src
    src = item_at(raw, r'\bpub\s+enum\s+Language\b', 'enum Language')
    m = re.match(r'pub\s+enum\s+Language\s*\{', src)
    if not m:
        raise Unrecognised('enum Language not found')
    c = match_close(src, m.end() - 1, '{', '}')
    variants = [v.strip() for v in src[m.end():c].split(',') if v.strip()]
    for v in variants:
        if not re.fullmatch(r'[A-Z][A-Za-z0-9]*', v):
            raise Unrecognised('enum Language: variant %r is not a plain unit variant' % v)
    src = item_at(raw, r'^impl\s+Language\s*\{', 'impl Language')
    src = src[:match_close(src, src.index('{'), '{', '}') + 1]
    m = re.search(r'\bpub\s+fn\s+as_str\s*\(\s*self\s*\)\s*->\s*&\s*\'static\s+str\s*\{', src)
    if not m:
        raise Unrecognised('Language::as_str not found')
    c = match_close(src, m.end() - 1, '{', '}')
    body = norm(src[m.end():c])
    mm = re.fullmatch(r'match self\{(.*)\}', body, re.S)
    if not mm:
        raise Unrecognised('as_str body is not a single `match self { .. }`')
    arms = {}
    inner = mm.group(1)
    pos = 0
    arm = re.compile(r'((?:Language::[A-Za-z0-9]+\|?)+)=>("(?:\\.|[^"\\])*"),?')
    while pos < len(inner):
        a = arm.match(inner, pos)
        if not a:
            raise Unrecognised('as_str: unrecognised match arm at %r' % inner[pos:pos + 60])
        tag = rust_bytes_literal(a.group(2))
        for v in a.group(1).split('|'):
            v = v[len('Language::'):]
            if v in arms:
                raise Unrecognised('as_str: variant %s matched twice' % v)
            arms[v] = tag
        pos = a.end()
    if set(arms) != set(variants):
        raise Unrecognised('as_str arms %s do not cover enum Language %s exactly' % (sorted(arms), sorted(variants)))
    return [(v, arms[v]) for v in variants]


# ---------------------------------------------------------------- the two key functions

ROLE_BY_TYPE = {
    '&str': 'digest', 'Language': 'lang', '&[OsString]': 'args', '&[String]': 'extra',
    '&[(OsString,OsString)]': 'env', '&[u8]': 'pp', 'bool': 'plusplus', '&Path': 'path',
    'PreprocessorCacheModeConfig': 'config',
}

ID = r'[A-Za-z_][A-Za-z0-9_]*'


def function(src, name):
    src = item_at(src, r'\bpub\s+fn\s+%s\s*\(' % name, 'fn ' + name)
    m = re.match(r'pub\s+fn\s+%s\s*\(' % name, src)
    if not m:
        raise Unrecognised('fn %s not found' % name)
    po = m.end() - 1
    pc = match_close(src, po, '(', ')')
    params = {}
    depth = 0
    cur = []
    plist = []
    for ch in src[po + 1:pc]:
        if ch in '([<':
            depth += 1
        elif ch in ')]>':
            depth -= 1
        if ch == ',' and depth == 0:
            plist.append(''.join(cur))
            cur = []
        else:
            cur.append(ch)
    if ''.join(cur).strip():
        plist.append(''.join(cur))
    for p in plist:
        nm, _, ty = p.partition(':')
        ty = re.sub(r'\s+', '', ty)
        nm = nm.strip()
        if ty not in ROLE_BY_TYPE:
            raise Unrecognised('fn %s: parameter %s has unexpected type %s' % (name, nm, ty))
        role = ROLE_BY_TYPE[ty]
        if role in params:
            raise Unrecognised('fn %s: two parameters of type %s' % (name, ty))
        params[role] = nm
    bo = src.index('{', pc)
    ret = re.sub(r'\s+', '', src[pc + 1:bo])
    bc = match_close(src, bo, '{', '}')
    return params, ret, src[bo + 1:bc]


def hash_mode(stmt, var, m):
    """`var.hash(&mut HashToDigest { digest: &mut m })` -> 'LP';  `m.update(var.as_bytes())` -> 'Raw'; else None."""
    if stmt == '%s.hash(&mut HashToDigest{digest:&mut %s})' % (var, m):
        return 'LP'
    if stmt in ('%s.update(%s.as_bytes())' % (m, var), '%s.update(%s.as_encoded_bytes())' % (m, var)):
        return 'Raw'
    return None


INCLUDE_FILE_DIGEST_SIG = '(content_digest:String,finder:&TimeMacroFinder,mtime:Option<Timestamp>,)'
INCLUDE_FILE_DIGEST_BODY = (
    'if!finder.found_date()&&!finder.found_timestamp(){return Some(content_digest);}'
    'let mut time_digest=Digest::new();'
    'if finder.found_date(){time_digest.delimiter(b"date");let date=chrono::Local::now().date_naive();'
    'time_digest.update(&date.year().to_le_bytes());time_digest.update(&date.month().to_le_bytes());'
    'time_digest.update(&date.day().to_le_bytes());'
    'if let Ok(source_date_epoch)=std::env::var("SOURCE_DATE_EPOCH"){time_digest.update(source_date_epoch.as_bytes())}}'
    'if finder.found_timestamp(){time_digest.delimiter(b"timestamp");mtime?.hash(&mut HashToDigest{digest:&mut time_digest,});}'
    'Some(format!("{}-{}",content_digest,time_digest.finish()))')


def check_include_file_digest(src):
    """`include_file_digest` is modelled as a whole (KeyEnc.input_digest_pieces / time_pre): its text must be the one
    the model was written for."""
    i = item_at(src, r'\bpub\s+fn\s+include_file_digest\s*\(', 'fn include_file_digest')
    po = i.index('(')
    pc = match_close(i, po, '(', ')')
    bo = i.index('{', pc)
    bc = match_close(i, bo, '{', '}')
    sig = norm(i[po:pc + 1])
    if sig.replace(',)', ')') != INCLUDE_FILE_DIGEST_SIG.replace(',)', ')') or re.sub(r'\s+', '', i[pc + 1:bo]) != '->Option<String>':
        raise Unrecognised('fn include_file_digest: signature %r' % sig)
    body = norm(i[bo + 1:bc])
    if body != INCLUDE_FILE_DIGEST_BODY:
        k = next((j for j, (a, b) in enumerate(zip(body, INCLUDE_FILE_DIGEST_BODY)) if a != b), min(len(body), len(INCLUDE_FILE_DIGEST_BODY)))
        raise Unrecognised('fn include_file_digest: body differs from the modelled one at %r' % body[max(0, k - 40):k + 60])


def check_delimiter(util_src):
    """Digest::delimiter(name) = "\\0SCCACHE\\0" name "\\0"  (KeyEnc.delimiter)"""
    i = item_at(util_src, r'\bpub\s+fn\s+delimiter\s*\(', 'fn Digest::delimiter')
    bo = i.index('{')
    bc = match_close(i, bo, '{', '}')
    if norm(i[:bo]) != 'pub fn delimiter(&mut self,name:&[u8])' or \
            norm(i[bo + 1:bc]) != 'self.update(b"\\0SCCACHE\\0");self.update(name);self.update(b"\\0");':
        raise Unrecognised('fn Digest::delimiter is not the modelled one: %r' % norm(i[:bc + 1]))


def parse_key_function(src, name, version_const):
    """-> (shape, time_gate).  shape = list of components, each a tuple:
    ('CDigest',) ('CPlusplus',) ('CVersion',) ('CFmtVersion',) ('CLang',) ('CArgs', mode) ('CExtra',)
    ('CEnv', [('EName', mode) | ('EVal', mode) | ('ELit', bytes)]) ('CPP',) ('CPath',) ('CInputDigest',)
    ('CInputDigestT',)  (the digest goes through include_file_digest, whose body is checked literally)"""
    P, ret, body = function(src, name)
    stmts = [norm(s) for s in split_statements(body)]
    need = {'digest', 'lang', 'args', 'extra', 'env', 'plusplus'}
    if not need <= set(P):
        raise Unrecognised('fn %s: missing parameters %s' % (name, sorted(need - set(P))))
    if not stmts or not re.fullmatch(r'let mut (%s)=Digest::new\(\)' % ID, stmts[0]):
        raise Unrecognised('fn %s: first statement is not `let mut m = Digest::new()`: %r' % (name, stmts[:1]))
    m = re.fullmatch(r'let mut (%s)=Digest::new\(\)' % ID, stmts[0]).group(1)
    shape = []
    time_gate = False
    finished = False
    pending_buf = None      # name of a `let mut buf = vec![]` that received the encoded path
    buf_filled = False
    reader = None
    digest_var = None
    salted_digest = False
    i = 1
    while i < len(stmts):
        s = stmts[i]
        i += 1
        if finished:
            raise Unrecognised('fn %s: statement after the final expression: %r' % (name, s[:80]))
        if s == '%s.update(%s.as_bytes())' % (m, P['digest']):
            shape.append(('CDigest',))
        elif s == '%s.update(&[%s as u8])' % (m, P['plusplus']):
            shape.append(('CPlusplus',))
        elif s == '%s.update(%s)' % (m, version_const) and version_const == 'CACHE_VERSION':
            shape.append(('CVersion',))
        elif s == '%s.update(&[%s])' % (m, version_const) and version_const == 'FORMAT_VERSION':
            shape.append(('CFmtVersion',))
        elif s == '%s.update(%s.as_str().as_bytes())' % (m, P['lang']):
            shape.append(('CLang',))
        elif 'pp' in P and s == '%s.update(%s)' % (m, P['pp']):
            shape.append(('CPP',))
        elif re.match(r'for\b', s):
            head, inner = block_of(s)
            inner = [norm(x) for x in split_statements(inner)]
            h = re.fullmatch(r'for (%s) in (%s)(?:\.iter\(\))?' % (ID, ID), head)
            h2 = re.fullmatch(r'for\((%s),(%s)\)in (%s)(?:\.iter\(\))?' % (ID, ID, ID), head)
            if h and h.group(2) == P['args']:
                if len(inner) != 1 or hash_mode(inner[0], h.group(1), m) is None:
                    raise Unrecognised('fn %s: body of the loop over the arguments: %r' % (name, inner))
                shape.append(('CArgs', hash_mode(inner[0], h.group(1), m)))
            elif h and h.group(2) == P['extra']:
                if inner != ['%s.update(%s.as_bytes())' % (m, h.group(1))]:
                    raise Unrecognised('fn %s: body of the loop over the extra hashes: %r' % (name, inner))
                shape.append(('CExtra',))
            elif h2 and h2.group(3) == P['env']:
                var, val = h2.group(1), h2.group(2)
                if len(inner) != 1:
                    raise Unrecognised('fn %s: the environment loop must consist of the allow-list guard: %r' % (name, inner))
                ghead, gbody = block_of(inner[0])
                if norm(ghead) != 'if CACHED_ENV_VARS.contains(%s.as_os_str())' % var:
                    raise Unrecognised('fn %s: environment guard %r' % (name, norm(ghead)))
                comps = []
                for e in [norm(x) for x in split_statements(gbody)]:
                    lit = re.fullmatch(r'%s\.update\(&?(b"(?:\\.|[^"\\])*")(?:\[\.\.\])?\)' % m, e)
                    if hash_mode(e, var, m):
                        comps.append(('EName', hash_mode(e, var, m)))
                    elif hash_mode(e, val, m):
                        comps.append(('EVal', hash_mode(e, val, m)))
                    elif lit:
                        comps.append(('ELit', rust_bytes_literal(lit.group(1))))
                    else:
                        raise Unrecognised('fn %s: statement in the environment loop: %r' % (name, e))
                shape.append(('CEnv', comps))
            else:
                raise Unrecognised('fn %s: loop header %r' % (name, head))
        elif 'path' in P and re.fullmatch(r'let mut (%s)=vec!\[\]' % ID, s):
            pending_buf = re.fullmatch(r'let mut (%s)=vec!\[\]' % ID, s).group(1)
        elif 'path' in P and pending_buf and s == 'encode_path(&mut %s,%s)?' % (pending_buf, P['path']):
            buf_filled = True
        elif 'path' in P and pending_buf and buf_filled and s == '%s.update(&%s)' % (m, pending_buf):
            shape.append(('CPath',))
            pending_buf = None
            buf_filled = False
        elif 'path' in P and re.fullmatch(r'let (%s)=std::fs::File::open\(%s\)(\.with_context\(.*\))?\?' % (ID, re.escape(P['path'])), s, re.S):
            reader = re.fullmatch(r'let (%s)=.*' % ID, s, re.S).group(1)
        elif 'path' in P and 'config' in P and reader and re.fullmatch(r'let (%s)=if .*' % ID, s, re.S):
            dv = re.fullmatch(r'let (%s)=if .*' % ID, s, re.S).group(1)
            s2 = re.sub(r'debug!\((?:"(?:\\.|[^"\\])*"|[^()"]|\([^()]*\))*\);?', '', s)
            want = ('let {d}=if {c}.ignore_time_macros{{Digest::reader_sync({r})?}}else{{'
                    'let({d2},{f})=Digest::reader_sync_time_macros({r})?;if {f}.found_time(){{return Ok(None);}}{d2}}}')
            mm = re.fullmatch(r'let %s=if %s\.ignore_time_macros\{Digest::reader_sync\(%s\)\?\}else\{let\((%s),(%s)\)='
                              r'Digest::reader_sync_time_macros\(%s\)\?;if (%s)\.found_time\(\)\{return Ok\(None\);?\}(%s)\}'
                              % (dv, P['config'], reader, ID, ID, reader, ID, ID), s2)
            # since f36dfcd: the content digest goes through include_file_digest(digest, &finder, mtime)
            mt = re.fullmatch(r'let %s=if %s\.ignore_time_macros\{Digest::reader_sync\(%s\)\?\}else\{let\((%s),(%s)\)='
                              r'Digest::reader_sync_time_macros\(%s\)\?;if (%s)\.found_time\(\)\{return Ok\(None\);?\}'
                              r'let (%s)=std::fs::metadata\(%s\)\.and_then\(\|(%s)\|(%s)\.modified\(\)\)\.ok\(\)\.map\(Into::into\);'
                              r'match include_file_digest\((%s),&(%s),(%s)\)\{Some\((%s)\)=>(%s),None=>return Ok\(None\),?\}\}'
                              % (dv, P['config'], reader, ID, ID, reader, ID, ID, re.escape(P['path']), ID, ID, ID, ID, ID, ID, ID), s2)
            if mt:
                g = mt.groups()
                # (digest, finder) ; finder ; mtime ; |meta| meta ; include_file_digest(digest, &finder, mtime) ; Some(x) => x
                if not (g[1] == g[2] and g[4] == g[5] and g[6] == g[0] and g[7] == g[1] and g[8] == g[3] and g[9] == g[10]):
                    raise Unrecognised('fn %s: the input-file digest statement binds its variables in an unknown way: %r' % (name, s2))
                salted_digest = True
                check_include_file_digest(src)
                mm = None
            elif not mm or mm.group(2) != mm.group(3) or mm.group(1) != mm.group(4):
                raise Unrecognised('fn %s: the input-file digest / time-macro gate is not of the known form: %r (expected like %s)'
                                   % (name, s2, want))
            digest_var = dv
            time_gate = True
        elif digest_var and s == '%s.update(%s.as_bytes())' % (m, digest_var):
            shape.append(('CInputDigestT',) if salted_digest else ('CInputDigest',))
        elif s == '%s.finish()' % m and ret == '->String':
            finished = True
        elif s == 'Ok(Some(%s.finish()))' % m and ret == '->anyhow::Result<Option<String>>':
            finished = True
        else:
            raise Unrecognised('fn %s: unrecognised statement %r' % (name, s[:160]))
    if not finished:
        raise Unrecognised('fn %s: does not end in the digest' % name)
    if pending_buf or buf_filled:
        raise Unrecognised('fn %s: encoded path buffer never hashed' % name)
    return shape, time_gate


# ---------------------------------------------------------------- detect_c_compiler: compiler_id -> (compiler, plusplus)

def split_top(text, sep):
    """split at `sep` outside (), [], {} and string literals"""
    out, cur, depth, i = [], [], 0, 0
    while i < len(text):
        c = text[i]
        if c == '"':
            j = skip_string(text, i)
            cur.append(text[i:j])
            i = j
            continue
        if c in '([{':
            depth += 1
        elif c in ')]}':
            depth -= 1
        if depth == 0 and text.startswith(sep, i):
            out.append(''.join(cur))
            cur = []
            i += len(sep)
            continue
        cur.append(c)
        i += 1
    out.append(''.join(cur))
    return out


def eval_kind_expr(expr, kind, lets, depth=0):
    """Evaluate a boolean Rust expression over the string `kind` (normalised text)."""
    e = expr.strip()
    if depth > 8:
        raise Unrecognised('expression nests too deeply: %r' % expr)
    while e.startswith('(') and match_close(e, 0, '(', ')') == len(e) - 1:
        e = e[1:-1]
    parts = split_top(e, '||')
    if len(parts) > 1:
        return any(eval_kind_expr(x, kind, lets, depth + 1) for x in parts)
    parts = split_top(e, '&&')
    if len(parts) > 1:
        return all(eval_kind_expr(x, kind, lets, depth + 1) for x in parts)
    if e in ('true', 'false'):
        return e == 'true'
    if e.startswith('!') and not e.startswith('!='):
        return not eval_kind_expr(e[1:], kind, lets, depth + 1)
    m = re.fullmatch(r'kind\.(ends_with|starts_with|contains)\(("(?:\\.|[^"\\])*")\)', e)
    if m:
        lit = rust_bytes_literal(m.group(2)).decode()
        return {'ends_with': kind.endswith, 'starts_with': kind.startswith, 'contains': lambda x: x in kind}[m.group(1)](lit)
    m = re.fullmatch(r'kind(==|!=)("(?:\\.|[^"\\])*")', e)
    if m:
        return (kind == rust_bytes_literal(m.group(2)).decode()) == (m.group(1) == '==')
    m = re.fullmatch(r'matches!\(kind,(.*)\)', e)
    if m:
        alts = [rust_bytes_literal(a).decode() for a in split_top(m.group(1), '|')]
        return kind in alts
    if re.fullmatch(ID, e) and e in lets:
        return eval_kind_expr(lets[e], kind, lets, depth + 1)
    raise Unrecognised('detect_c_compiler: cannot evaluate %r' % expr)


def plusplus_fields(repo):
    """struct name -> 'true' | 'false' | field name, from `impl CCompilerImpl for X { fn plusplus(&self) -> bool {..} }`"""
    out = {}
    d = os.path.join(repo, 'src', 'compiler')
    for fn in sorted(os.listdir(d)):
        if not fn.endswith('.rs'):
            continue
        raw = read(repo, os.path.join('src', 'compiler', fn))
        for m in re.finditer(r'^impl\s+CCompilerImpl\s+for\s+(%s)\s*\{' % ID, raw, re.M):
            txt = item_at(raw, r'^impl\s+CCompilerImpl\s+for\s+%s\s*\{' % m.group(1), 'impl CCompilerImpl for ' + m.group(1))
            f = re.search(r'fn\s+plusplus\s*\(\s*&self\s*\)\s*->\s*bool\s*\{', txt)
            if not f:
                raise Unrecognised('impl CCompilerImpl for %s: no plusplus()' % m.group(1))
            c = match_close(txt, f.end() - 1, '{', '}')
            body = norm(txt[f.end():c])
            mm = re.fullmatch(r'(true|false)|self\.(%s)' % ID, body)
            if not mm:
                raise Unrecognised('%s::plusplus(): body %r' % (m.group(1), body))
            out[m.group(1)] = mm.group(1) or mm.group(2)
    return out


def driver_table(repo):
    """-> (script_ids, [(kind, compiler struct, plusplus, carries the reported version)]) from `detect_c_compiler`: what `plusplus()` (the byte that
    hash_key mixes in as C-vs-C++ driver mode) will be for every `compiler_id=` the detection script can print."""
    raw = read(repo, 'src/compiler/compiler.rs')
    txt = item_at(raw, r'^async\s+fn\s+detect_c_compiler\b', 'fn detect_c_compiler')
    ids = re.findall(r'^compiler_id=([A-Za-z0-9_+.\-]+)\s*$', txt, re.M)
    if len(ids) < 4 or len(set(ids)) != len(ids):
        raise Unrecognised('detect_c_compiler: detection script ids %r' % ids)
    fields = plusplus_fields(repo)
    k = txt.find('if let Some(kind)')
    if k < 0:
        raise Unrecognised('detect_c_compiler: `if let Some(kind) = ...` not found')
    bo = txt.index('{', k)
    blk = txt[bo + 1:match_close(txt, bo, '{', '}')]
    stmts = split_statements(blk)
    lets = {}
    match_stmt = None
    for st in stmts:
        n = norm(st)
        m = re.fullmatch(r'let (%s)(?::bool)?=(.*)' % ID, n, re.S)
        if n.startswith('match kind{'):
            match_stmt = n
            break
        if m:
            lets[m.group(1)] = m.group(2)
    if match_stmt is None:
        raise Unrecognised('detect_c_compiler: `match kind { .. }` not found')
    inner = match_stmt[len('match kind{'):-1]
    table = []
    pos = 0
    while pos < len(inner):
        if inner[pos] == ',':
            pos += 1
            continue
        m = re.match(r'((?:"(?:\\.|[^"\\])*"\|?)+|_)=>', inner[pos:])
        if not m:
            raise Unrecognised('detect_c_compiler: match arm at %r' % inner[pos:pos + 60])
        pos += m.end()
        if inner[pos] == '{':
            c = match_close(inner, pos, '{', '}')
            body = inner[pos + 1:c]
            pos = c + 1
        else:
            parts = split_top(inner[pos:], ',')
            body = parts[0]
            pos += len(body)
        if m.group(1) == '_':
            continue
        kinds = [rust_bytes_literal(a).decode() for a in m.group(1).split('|') if a]
        cm = re.search(r'CCompiler::new\((%s)(\{)?' % ID, body)
        if not cm:
            raise Unrecognised('detect_c_compiler: arm %r does not build a CCompiler' % kinds)
        name = cm.group(1)
        if name not in fields:
            raise Unrecognised('detect_c_compiler: %s has no CCompilerImpl::plusplus' % name)
        inits = {}
        if cm.group(2):
            o = cm.end() - 1
            for f in split_top(body[o + 1:match_close(body, o, '{', '}')], ','):
                if not f.strip():
                    continue
                fm = re.fullmatch(r'(%s)(?::(.*))?' % ID, f.strip(), re.S)
                if not fm:
                    raise Unrecognised('detect_c_compiler: field initialiser %r' % f)
                inits[fm.group(1)] = fm.group(2) if fm.group(2) is not None else fm.group(1)
        arm_lets = dict(lets)
        for st in split_statements(body):
            lm = re.fullmatch(r'let (%s)(?::bool)?=(.*)' % ID, norm(st), re.S)
            if lm:
                arm_lets[lm.group(1)] = lm.group(2)
        for kd in kinds:
            fld = fields[name]
            if fld in ('true', 'false'):
                pp = fld == 'true'
            elif fld in inits:
                pp = eval_kind_expr(inits[fld], kd, arm_lets)
            else:
                raise Unrecognised('detect_c_compiler: %s { .. } does not initialise %s' % (name, fld))
            table.append((kd, name, pp, 'version' in inits))
    return ids, table


def env_prefilter(repo):
    """What environment `CCompilerHasher::generate_hash_key` (c.rs) hands to the two key functions:
    None = the client's whole environment (sorted); otherwise the list it is filtered by beforehand."""
    raw = read(repo, 'src/compiler/c.rs')
    txt = norm(item_at(raw, r'^    async\s+fn\s+generate_hash_key\s*\(', 'fn generate_hash_key'))
    ms = []
    for m in re.finditer(r'let mut (%s)(?::Vec<\(OsString,OsString\)>)?=env_vars(?=\.)' % ID, txt):
        rest = split_top(txt[m.end():], ';')[0]
        ms.append((m.group(1), rest))
    if len(ms) != 1:
        raise Unrecognised('generate_hash_key: expected exactly one `let mut <v> = env_vars.<..>;`, found %r' % ms)
    var, chain = ms[0]
    if '%s.sort();' % var not in txt:
        raise Unrecognised('generate_hash_key: %s is not sorted' % var)
    for fn in ('hash_key', 'preprocessor_cache_entry_hash_key'):
        calls = re.findall(r'(?<![A-Za-z0-9_])%s\(((?:[^()]|\((?:[^()]|\([^()]*\))*\))*)\)' % fn, txt)
        if len(calls) != 1 or ('&%s' % var) not in split_top(calls[0], ','):
            raise Unrecognised('generate_hash_key: %s is not called exactly once with &%s: %r' % (fn, var, calls))
    if chain == '.clone()':
        return None
    m = re.fullmatch(r'\.iter\(\)\.filter\(\|\((%s),_\)\|(%s)\.contains\((%s)\.as_os_str\(\)\)\)\.cloned\(\)\.collect\(\)' % (ID, ID, ID), chain)
    if not m or m.group(1) != m.group(3):
        raise Unrecognised('generate_hash_key: the environment is prepared in an unknown way: env_vars%s' % chain)
    return env_allow_list(raw, m.group(2))


SEG_BY_FIELD = {'preprocessor_args': 'SPre', 'arch_args': 'SArch', 'common_args': 'SCommon'}
EXPECTED_FLOW_C = ['SCommon', 'SArch', 'SProfile']
EXPECTED_FLOW_P = ['SPre', 'SArch', 'SCommon', 'SProfile', 'SCwd']


def arg_flow(repo):
    """Which argument lists of the parsed request `generate_hash_key` (c.rs) concatenates, in which order, into the
    `arguments` of hash_key (-> flow_c) and of preprocessor_cache_entry_hash_key (-> flow_p).  A segment that is not a
    field of `parsed_args` taken as it is (order and multiplicity kept) comes out as 'SOther'."""
    raw = read(repo, 'src/compiler/c.rs')
    txt = norm(item_at(raw, r'^    async\s+fn\s+generate_hash_key\s*\(', 'fn generate_hash_key'))
    flows = {}
    for fn, key in (('hash_key', 'flow_c'), ('preprocessor_cache_entry_hash_key', 'flow_p')):
        calls = re.findall(r'(?<![A-Za-z0-9_])%s\(((?:[^()]|\((?:[^()]|\([^()]*\))*\))*)\)' % fn, txt)
        if len(calls) != 1:
            raise Unrecognised('generate_hash_key: %s called %d times' % (fn, len(calls)))
        a = split_top(calls[0], ',')
        m = re.fullmatch(r'&(%s)' % ID, a[2]) if len(a) > 2 else None
        if not m:
            raise Unrecognised('generate_hash_key: third argument of %s is %r' % (fn, a[2:3]))
        v = m.group(1)
        segs = []
        init = re.findall(r'let mut %s=([^;]*);' % v, txt)
        if len(init) != 1:
            raise Unrecognised('generate_hash_key: %s is not initialised exactly once' % v)
        mi = re.fullmatch(r'parsed_args\.(%s)\.clone\(\)' % ID, init[0])
        segs.append(SEG_BY_FIELD.get(mi.group(1), 'SOther') if mi else 'SOther')
        # every later statement that touches the list
        for use in re.finditer(r'(?<![A-Za-z0-9_&])%s\.(%s)\(((?:[^()]|\((?:[^()]|\([^()]*\))*\))*)\)' % (v, ID), txt):
            meth, arg = use.group(1), use.group(2)
            if meth == 'extend':
                mf = re.fullmatch(r'parsed_args\.(%s)\.(?:to_vec|clone)\(\)' % ID, arg)
                if mf:
                    segs.append(SEG_BY_FIELD.get(mf.group(1), 'SOther'))
                elif re.fullmatch(r'profile_output_path(\.clone\(\))?', arg):
                    segs.append('SProfile')
                else:
                    segs.append('SOther')
            elif meth == 'push' and arg == 'cwd.clone().into_os_string()':
                pre = txt[:use.start()]
                if pre.endswith('if storage.preprocessor_cache_mode_config().hash_working_directory{'):
                    segs.append('SCwd')
                else:
                    segs.append('SOther')
            else:
                segs.append('SOther')       # sort, dedup, retain, insert, ...: not a plain concatenation any more
        flows[key] = segs
    return flows


def extra_order(repo):
    """'InOrder' if `util::hash_all` (and its use in generate_hash_key) returns the digest of the i-th file at position
    i: one future per file, in file order, collected by an order-preserving combinator; otherwise 'OtherOrder'."""
    txt = norm(item_at(read(repo, 'src/util.rs'), r'^pub\s+async\s+fn\s+hash_all\s*\(', 'fn util::hash_all'))
    bo = txt.index('{')
    stmts = [x for x in (norm(t) for t in split_statements(txt[bo + 1:match_close(txt, bo, '{', '}')]))
             if not x.startswith(('trace!(', 'debug!(', 'let start=', 'let count='))]
    want = ['let iter=files.iter().map(move|f|Digest::file(f,pool))',
            'let hashes=futures::future::try_join_all(iter).await?',
            'Ok(hashes)']
    mode = 'InOrder' if stmts == want else 'OtherOrder'
    g = norm(item_at(read(repo, 'src/compiler/c.rs'), r'^    async\s+fn\s+generate_hash_key\s*\(', 'fn generate_hash_key'))
    if len(re.findall(r'let extra_hashes=hash_all\(&parsed_args\.extra_hash_files,&pool\.clone\(\)\)\.await\?;', g)) != 1 \
            or len(re.findall(r'let (?:mut )?extra_hashes\b', g)) != 1:
        mode = 'OtherOrder'
    for fn in ('hash_key', 'preprocessor_cache_entry_hash_key'):
        calls = re.findall(r'(?<![A-Za-z0-9_])%s\(((?:[^()]|\((?:[^()]|\([^()]*\))*\))*)\)' % fn, g)
        if len(calls) != 1 or split_top(calls[0], ',')[3:4] != ['&extra_hashes']:
            mode = 'OtherOrder'
    return mode


def reader_loop(repo):
    """'StopAtEof' if Digest::reader_sync / reader_sync_time_macros / reader go through `reader_sync_with`, whose loop
    feeds every non-empty read to the digest and stops only on a read of 0 bytes; otherwise 'OtherLoop'."""
    raw = read(repo, 'src/util.rs')
    def body(pat, what):
        t = norm(item_at(raw, pat, what))
        bo = t.index('{')
        return t[bo + 1:match_close(t, bo, '{', '}')]
    ok = body(r'^    pub\s+fn\s+reader_sync\s*<', 'Digest::reader_sync') == 'Self::reader_sync_with(reader,|_|{}).map(|d|d.finish())'
    w = body(r'^    pub\s+fn\s+reader_sync_with\s*<', 'Digest::reader_sync_with')
    ok = ok and w == ('let mut m=Digest::new();let mut buffer=[0;HASH_BUFFER_SIZE];loop{let count=reader.read(&mut buffer[..])?;'
                      'if count==0{break;}each(&buffer[..count]);m.update(&buffer[..count]);}Ok(m)')
    tm = body(r'^    pub\s+fn\s+reader_sync_time_macros\s*<', 'Digest::reader_sync_time_macros')
    ok = ok and 'Self::reader_sync_with(reader,|visit|finder.find_time_macros(visit))?.finish()' in tm
    rd = body(r'^    pub\s+async\s+fn\s+reader\s*\(', 'Digest::reader')
    ok = ok and 'Digest::reader_sync(reader)' in rd
    return 'StopAtEof' if ok else 'OtherLoop'


def input_path_mode(repo):
    """'AsGiven' if the path handed to preprocessor_cache_entry_hash_key is `cwd.join(input)` (or the input itself when
    absolute) and nothing else (no canonicalisation, no normalisation); otherwise 'OtherPath'."""
    g = norm(item_at(read(repo, 'src/compiler/c.rs'), r'^    async\s+fn\s+generate_hash_key\s*\(', 'fn generate_hash_key'))
    binds = re.findall(r'let (?:mut )?absolute_input_path\b[^=]*=', g)
    want = ("let absolute_input_path:Cow<'_,_>=if parsed_args.input.is_absolute(){Cow::Borrowed(&parsed_args.input)}"
            'else{Cow::Owned(cwd.join(&parsed_args.input))};')
    calls = re.findall(r'(?<![A-Za-z0-9_])preprocessor_cache_entry_hash_key\(((?:[^()]|\((?:[^()]|\([^()]*\))*\))*)\)', g)
    ok = (len(binds) == 1 and want in g and len(calls) == 1 and split_top(calls[0], ',')[5:6] == ['&absolute_input_path'])
    return 'AsGiven' if ok else 'OtherPath'


EXPECTED_ENV = [('EName', 'LP'), ('ELit', b'='), ('EVal', 'LP')]
EXPECTED_SHAPE_C = [('CDigest',), ('CPlusplus',), ('CVersion',), ('CLang',), ('CArgs', 'LP'), ('CExtra',),
                    ('CEnv', EXPECTED_ENV), ('CPP',)]
EXPECTED_SHAPE_P = [('CDigest',), ('CPlusplus',), ('CFmtVersion',), ('CLang',), ('CArgs', 'LP'), ('CExtra',),
                    ('CEnv', EXPECTED_ENV), ('CPath',), ('CInputDigestT',)]


def read_spec(repo, fallback=None):
    """-> (spec, errors).  An item that cannot be recognised is reported in `errors` and replaced by the value the
    model is proved for (component orders) or by `fallback[item]` (last good run), so that the differential legs
    still compare the real code with the EXPECTED behaviour and can look for a failing input."""
    c = read(repo, 'src/compiler/c.rs')
    p = read(repo, 'src/compiler/preprocessor_cache.rs')
    k = read(repo, 'src/compiler/compiler.rs')
    fallback = fallback or {}
    errors = []
    spec = {}

    def item(name, f, default):
        try:
            spec[name] = f()
        except Unrecognised as e:
            errors.append('%s: %s' % (name, e))
            if default is None:
                raise
            spec[name] = default

    def shape_c():
        sh, gate = parse_key_function(c, 'hash_key', 'CACHE_VERSION')
        if gate:
            raise Unrecognised('hash_key has a time-macro gate')
        return sh

    gate = {}

    def shape_p():
        sh, g = parse_key_function(p, 'preprocessor_cache_entry_hash_key', 'FORMAT_VERSION')
        gate['g'] = g
        if ('CInputDigestT',) in sh:
            check_delimiter(read(repo, 'src/util.rs'))
        return sh

    item('version', lambda: const_bytes(c, 'CACHE_VERSION'), fallback.get('version'))
    item('fmt_version', lambda: const_u8(p, 'FORMAT_VERSION'), fallback.get('fmt_version'))
    item('allow_main', lambda: env_allow_list(c), fallback.get('allow_main'))
    item('allow_pp', lambda: env_allow_list(p), fallback.get('allow_pp'))
    item('tags', lambda: language_table(k), fallback.get('tags'))
    def drivers():
        ids, table = driver_table(repo)
        spec['script_ids'] = ids
        return table

    if fallback.get('drivers') is not None and fallback.get('script_ids') is not None:
        spec['script_ids'] = fallback['script_ids']
    item('drivers', drivers, fallback.get('drivers'))
    for name, f, bad in (('extra_order', extra_order, 'OtherOrder'), ('input_path_mode', input_path_mode, 'OtherPath'),
                         ('reader_loop', reader_loop, 'OtherLoop')):
        try:
            spec[name] = f(repo)
        except Unrecognised as e:
            errors.append('%s: %s' % (name, e))
            spec[name] = bad
    try:
        spec.update(arg_flow(repo))
    except Unrecognised as e:
        errors.append('arg_flow: %s' % e)
        spec['flow_c'], spec['flow_p'] = ['SOther'], ['SOther']
    try:
        spec['env_prefilter'] = env_prefilter(repo)
    except Unrecognised as e:
        errors.append('env_prefilter: %s' % e)
        spec['env_prefilter'] = []          # unknown: treated as "nothing reaches the key functions"
    item('shape_c', shape_c, EXPECTED_SHAPE_C)
    item('shape_p', shape_p, EXPECTED_SHAPE_P)
    spec['time_gate'] = gate.get('g', True)
    return spec, errors


# ---------------------------------------------------------------- Coq output

def coq_bytes(b):
    return '[' + '; '.join(str(x) for x in b) + ']'


def coq_comment_text(b):
    return b.decode('latin-1').replace('(*', '( *').replace('*)', '* )')


def coq_comp(c):
    if c[0] == 'CArgs':
        return '(CArgs %s)' % c[1]
    if c[0] == 'CEnv':
        items = []
        for e in c[1]:
            if e[0] == 'ELit':
                items.append('ELit %s' % coq_bytes(e[1]))
            else:
                items.append('%s %s' % (e[0], e[1]))
        return '(CEnv [' + '; '.join(items) + '])'
    return c[0]


def emit(spec, gen_dir):
    os.makedirs(gen_dir, exist_ok=True)
    L = []
    L.append('(* GENERATED by translator/c02_hashspec.py from src/compiler/{c,preprocessor_cache,compiler}.rs -- do not edit.')
    L.append('   Data only: constants, allow-lists, the Language::as_str table and the ORDER of the hashed components. *)')
    L.append('From Coq Require Import List NArith Bool.')
    L.append('From Sccache Require Import Base.Sx Model.KeyEnc.')
    L.append('Import ListNotations.')
    L.append('Local Open Scope N_scope.')
    L.append('')
    L.append('Definition the_spec : spec := {|')
    L.append('  version := %s;  (* CACHE_VERSION = b"%s" *)' % (coq_bytes(spec['version']), coq_comment_text(spec['version'])))
    L.append('  fmt_version := %s;  (* FORMAT_VERSION *)' % coq_bytes(spec['fmt_version']))
    L.append('  allow_main := [')
    L.append(';\n'.join('    (* %s *) %s' % (coq_comment_text(v), coq_bytes(v)) for v in spec['allow_main']))
    L.append('  ];')
    L.append('  allow_pp := [')
    L.append(';\n'.join('    (* %s *) %s' % (coq_comment_text(v), coq_bytes(v)) for v in spec['allow_pp']))
    L.append('  ];')
    L.append('  tags := [')
    L.append(';\n'.join('    (* %s => "%s" *) (%s, %s)' % (n, coq_comment_text(t), coq_bytes(n.encode()), coq_bytes(t))
                        for n, t in spec['tags']))
    L.append('  ];')
    L.append('  shape_c := [' + '; '.join(coq_comp(c) for c in spec['shape_c']) + '];')
    L.append('  shape_p := [' + '; '.join(coq_comp(c) for c in spec['shape_p']) + '];')
    L.append('  time_gate := %s' % ('true' if spec['time_gate'] else 'false'))
    L.append('|}.')
    L.append('')
    txt = '\n'.join(L)
    txt += '\n(* detect_c_compiler: the `compiler_id=` values the detection script can print ... *)\n'
    txt += 'Definition the_script_ids : list bytes := [\n' + ';\n'.join(
        '  (* %s *) %s' % (i, coq_bytes(i.encode())) for i in spec['script_ids']) + '\n].\n'
    txt += '\n(* ... and, per arm of `match kind`, the compiler it builds and the plusplus() that compiler will report *)\n'
    txt += 'Definition the_drivers : list (bytes * bytes * bool) := [\n' + ';\n'.join(
        '  (* %s => %s *) (%s, %s, %s)' % (k, n, coq_bytes(k.encode()), coq_bytes(n.encode()), 'true' if pp else 'false')
        for k, n, pp, _ in spec['drivers']) + '\n].\n'
    txt += '\n(* c.rs generate_hash_key: the argument lists of the parsed request that make up the hashed `arguments` *)\n'
    txt += 'Definition the_flow_c : list seg := [%s].\n' % '; '.join(spec['flow_c'])
    txt += 'Definition the_flow_p : list seg := [%s].\n' % '; '.join(spec['flow_p'])
    txt += '\n(* util::hash_all as used by generate_hash_key: is the i-th digest the digest of the i-th extra file? *)\n'
    txt += 'Definition the_extra_order : order_mode := %s.\n' % spec['extra_order']
    txt += '\n(* util::Digest::reader_sync & co.: how the bytes of a reader are fed to the digest *)\n'
    txt += 'Definition the_reader_loop : loop_mode := %s.\n' % spec['reader_loop']
    txt += '\n(* generate_hash_key: the input path handed to the preprocessor-level key *)\n'
    txt += 'Definition the_input_path_mode : path_mode := %s.\n' % spec['input_path_mode']
    txt += '\n(* c.rs generate_hash_key: the list the client environment is filtered by BEFORE it reaches the key functions *)\n'
    pf = spec.get('env_prefilter')
    txt += 'Definition the_env_prefilter : option (list bytes) := %s.\n' % (
        'None' if pf is None else 'Some [' + '; '.join(coq_bytes(v) for v in pf) + ']')
    write_if_changed(os.path.join(gen_dir, 'C02HashSpec.v'), txt)
    ok = '''(* GENERATED by translator/c02_hashspec.py -- the decidable side conditions the C02 theorems need of the
   source-derived data, each discharged by computation.  A failure here names the condition that the current
   sources no longer meet. *)
From Coq Require Import List NArith Bool.
From Sccache Require Import Base.Sx Model.KeyEnc Gen.C02HashSpec.
Import ListNotations.

(* the model's encoders are proved against these component orders *)
Lemma the_spec_shape_c : shape_c the_spec = expected_shape_c.
Proof. vm_compute; reflexivity. Qed.
Lemma the_spec_shape_p : shape_p the_spec = expected_shape_p.
Proof. vm_compute; reflexivity. Qed.
(* language tags: no two languages share a tag (except the driver-bound aliases listed in KeyEnc.v), and a tag that
   extends another does so by text that cannot be mistaken for a length prefix or a hex digest *)
Lemma the_spec_tags_ok : tags_ok the_spec = true.
Proof. vm_compute; reflexivity. Qed.
(* allow-listed variable names are NUL-free and short *)
Lemma the_spec_allow_ok : allow_ok the_spec = true.
Proof. vm_compute; reflexivity. Qed.
(* S16: every variable of the main key's allow-list is also part of the preprocessor-level key *)
Lemma the_spec_env_covers : env_covers the_spec = true.
Proof. vm_compute; reflexivity. Qed.
(* no variable the property counts as result-affecting has been dropped from an allow-list *)
Lemma the_spec_required : required_ok the_spec = true.
Proof. vm_compute; reflexivity. Qed.
Lemma the_spec_time_gate : time_gate the_spec = true.
Proof. vm_compute; reflexivity. Qed.

(* C-vs-C++ driver mode at its source: every compiler_id that ends in "++" is handled and yields plusplus() = true,
   every other one yields false *)
Lemma the_drivers_ok : drivers_ok the_script_ids the_drivers = true.
Proof. vm_compute; reflexivity. Qed.

(* whatever generate_hash_key filters the environment by beforehand keeps every variable of both allow-lists *)
Lemma the_prefilter_ok : prefilter_ok the_env_prefilter the_spec = true.
Proof. vm_compute; reflexivity. Qed.

(* the hashed argument lists are plain concatenations of the parsed request's lists (order and multiplicity kept) *)
Lemma the_flow_c_ok : the_flow_c = expected_flow_c.
Proof. vm_compute; reflexivity. Qed.
Lemma the_flow_p_ok : the_flow_p = expected_flow_p.
Proof. vm_compute; reflexivity. Qed.

(* the extra-file digests come in file order; the input path is hashed as it was given *)
Lemma the_extra_order_ok : the_extra_order = InOrder.
Proof. vm_compute; reflexivity. Qed.
Lemma the_reader_loop_ok : the_reader_loop = StopAtEof.
Proof. vm_compute; reflexivity. Qed.
Lemma the_input_path_mode_ok : the_input_path_mode = AsGiven.
Proof. vm_compute; reflexivity. Qed.

Lemma the_spec_good : spec_good the_spec.
Proof.
  exact (conj the_spec_shape_c (conj the_spec_shape_p (conj the_spec_tags_ok the_spec_allow_ok))).
Qed.
'''
    write_if_changed(os.path.join(gen_dir, 'C02HashSpec_ok.v'), ok)


def write_if_changed(path, txt):
    if os.path.exists(path) and open(path, encoding='utf-8').read() == txt:
        return False
    with open(path, 'w', encoding='utf-8') as f:
        f.write(txt)
    return True


def main(repo, gen_dir, fallback=None):
    """-> (spec, errors); the Gen files are written even when some item fell back (see read_spec)."""
    spec, errors = read_spec(repo, fallback)
    emit(spec, gen_dir)
    return spec, errors


if __name__ == '__main__':
    import sys
    import pprint
    r = sys.argv[1] if len(sys.argv) > 1 else '/repo'
    g = sys.argv[2] if len(sys.argv) > 2 else os.path.join(os.path.dirname(os.path.dirname(os.path.abspath(__file__))), 'coq', 'theories', 'Gen')
    pprint.pprint(main(r, g))
