"""c18_consts.py — reads the scheduler's constants and tables from the Rust sources and writes
coq/theories/Gen/C18Consts.v (the data the model Model/Scheduler.v is parameterised by):

  * `pub enum JobState { ... }`                        (src/dist/mod.rs)        -> Inductive jstate
  * `const MAX_PER_CORE_LOAD: f64 = 2f64;`              (sccache-dist/main.rs)   -> max_per_core_load
  * `fn load_weight`: `core_count + A + core_count / D` and the shape of the rest    -> slack_add, slack_div
  * the arms of `match (job_detail.state, job_state)` in handle_update_job_state     -> transitions
  * the two uses of MAX_PER_CORE_LOAD in the server choice of handle_alloc_job (shape check only)

Anything it does not recognise raises (a broken obligation, never a pass)."""
import os
import re


class Unrecognised(Exception):
    pass


def strip_comments(src):
    src = re.sub(r'/\*.*?\*/', ' ', src, flags=re.S)
    return re.sub(r'//[^\n]*', '', src)


def norm(s):
    return re.sub(r'\s+', ' ', s).strip()


def block_after(src, start):
    """text of the brace block that starts at the first '{' at or after index `start` (inclusive braces)."""
    i = src.index('{', start)
    depth = 0
    for k in range(i, len(src)):
        if src[k] == '{':
            depth += 1
        elif src[k] == '}':
            depth -= 1
            if depth == 0:
                return src[i:k + 1]
    raise Unrecognised('unbalanced braces')


def fn_body(src, name):
    m = re.search(r'\bfn\s+' + re.escape(name) + r'\b', src)
    if not m:
        raise Unrecognised('fn %s not found' % name)
    return block_after(src, m.end())


def read(repo):
    main = strip_comments(open(os.path.join(repo, 'src/bin/sccache-dist/main.rs'), encoding='utf-8').read())
    dist = strip_comments(open(os.path.join(repo, 'src/dist/mod.rs'), encoding='utf-8').read())

    m = re.search(r'pub\s+enum\s+JobState\s*\{([^}]*)\}', dist)
    if not m:
        raise Unrecognised('enum JobState not found in src/dist/mod.rs')
    variants = [v.strip() for v in m.group(1).split(',') if v.strip()]
    if not variants or not all(re.fullmatch(r'[A-Z][A-Za-z0-9]*', v) for v in variants):
        raise Unrecognised('JobState variants not plain identifiers: %r' % variants)

    m = re.search(r'const\s+MAX_PER_CORE_LOAD\s*:\s*f64\s*=\s*(\d+)(?:f64|\.0(?:f64)?)\s*;', main)
    if not m:
        raise Unrecognised('MAX_PER_CORE_LOAD is not an integral f64 literal')
    max_load = int(m.group(1))

    lw = norm(fn_body(main, 'load_weight'))
    m = re.fullmatch(
        r'\{ let cores_plus_slack = core_count \+ (\d+) \+ core_count / (\d+); '
        r'if job_count >= cores_plus_slack \{ MAX_PER_CORE_LOAD \+ 1f64 \} '
        r'else \{ job_count as f64 / core_count as f64 \} \}', lw)
    if not m:
        raise Unrecognised('load_weight has an unexpected shape: ' + lw)
    slack_add, slack_div = int(m.group(1)), int(m.group(2))
    if slack_div == 0:
        raise Unrecognised('load_weight divides by zero')
    if not re.search(r'fn\s+load_weight\s*\(\s*job_count\s*:\s*usize\s*,\s*core_count\s*:\s*usize\s*\)\s*->\s*f64', main):
        raise Unrecognised('load_weight signature changed')

    alloc = norm(fn_body(main, 'handle_alloc_job'))
    for needle in ('let mut best_load: f64 = MAX_PER_CORE_LOAD;',
                   'let load = load_weight(details.jobs_assigned.len(), details.num_cpus);',
                   'if load < MAX_PER_CORE_LOAD {',
                   '} else if load < best_load {',
                   'if load == 0f64 { break; }',
                   'best.or(best_err)'):
        if needle not in alloc:
            raise Unrecognised('server choice in handle_alloc_job changed shape: missing `%s`' % needle)

    upd = fn_body(main, 'handle_update_job_state')
    m = re.search(r'match\s*\(\s*job_detail\.state\s*,\s*job_state\s*\)', upd)
    if not m:
        raise Unrecognised('transition match not found in handle_update_job_state')
    arms_block = block_after(upd, m.end())
    # top-level arms only: remove nested blocks
    flat = []
    depth = 0
    for ch in arms_block[1:-1]:
        if ch == '{':
            depth += 1
        elif ch == '}':
            depth -= 1
        elif depth == 0:
            flat.append(ch)
    flat = ''.join(flat)
    pats = re.findall(r'\(\s*([A-Za-z_:]+)\s*,\s*([A-Za-z_:]+)\s*\)\s*=>', flat)
    trans = []
    catch_all = False
    for a, b in pats:
        ma, mb = re.fullmatch(r'JobState::(\w+)', a), re.fullmatch(r'JobState::(\w+)', b)
        if ma and mb:
            if catch_all:
                raise Unrecognised('transition arm after the catch-all arm')
            if ma.group(1) not in variants or mb.group(1) not in variants:
                raise Unrecognised('unknown state in transition arm (%s, %s)' % (a, b))
            trans.append((ma.group(1), mb.group(1)))
        elif re.fullmatch(r'[a-z_]+', a) and re.fullmatch(r'[a-z_]+', b):
            catch_all = True
        else:
            raise Unrecognised('transition arm pattern not understood: (%s, %s)' % (a, b))
    n_arrows = len(re.findall(r'=>', flat))
    if n_arrows != len(pats):
        raise Unrecognised('transition match has arms that are not pairs (%d arms, %d pairs)' % (n_arrows, len(pats)))
    if not catch_all or not re.search(r'\(\s*from\s*,\s*to\s*\)\s*=>\s*bail!', flat):
        raise Unrecognised('transition match lacks the rejecting catch-all arm')
    return dict(variants=variants, max_load=max_load, slack_add=slack_add, slack_div=slack_div, transitions=trans)


def render(d):
    v = d['variants']
    out = ['(* GENERATED by translator/c18_consts.py from src/bin/sccache-dist/main.rs and src/dist/mod.rs — do not edit. *)',
           'From Coq Require Import List NArith.', 'Import ListNotations.', 'Local Open Scope N_scope.', '',
           '(* pub enum JobState *)',
           'Inductive jstate : Type := ' + ' | '.join(v) + '.', '',
           'Definition jstate_code (s : jstate) : N :=',
           '  match s with ' + ' | '.join('%s => %d' % (x, i) for i, x in enumerate(v)) + ' end.', '',
           'Definition all_jstates : list jstate := [' + '; '.join(v) + '].', '',
           '(* const MAX_PER_CORE_LOAD: f64 *)',
           'Definition max_per_core_load : N := %d.' % d['max_load'], '',
           '(* load_weight: cores_plus_slack = core_count + slack_add + core_count / slack_div *)',
           'Definition slack_add : N := %d.' % d['slack_add'],
           'Definition slack_div : N := %d.' % d['slack_div'], '',
           '(* the accepting arms of `match (job_detail.state, job_state)` in handle_update_job_state, in order *)',
           'Definition transitions : list (jstate * jstate) :=',
           '  [' + '; '.join('(%s, %s)' % t for t in d['transitions']) + '].', '']
    return '\n'.join(out)


def write(repo, coq_dir):
    d = read(repo)
    txt = render(d)
    p = os.path.join(coq_dir, 'theories', 'Gen', 'C18Consts.v')
    os.makedirs(os.path.dirname(p), exist_ok=True)
    old = open(p).read() if os.path.exists(p) else None
    if old != txt:  # keep the timestamp when nothing changed, so make does not rebuild the proofs
        open(p, 'w').write(txt)
    return d


if __name__ == '__main__':
    import sys
    repo = sys.argv[1] if len(sys.argv) > 1 else os.environ.get('VERIF_REPO', '/repo')
    here = os.path.dirname(os.path.dirname(os.path.abspath(__file__)))
    print(write(repo, os.path.join(here, 'coq')))
