"""c18_consts.py — reads the scheduler's constants and tables from the Rust sources and writes
coq/theories/Gen/C18Consts.v (the data the model Model/Scheduler.v is parameterised by):

  * `pub enum JobState { ... }`                        (src/dist/mod.rs)        -> Inductive jstate
  * `const MAX_PER_CORE_LOAD: f64 = 2f64;`              (sccache-dist/main.rs)   -> max_per_core_load
  * `fn load_weight`: `core_count + A + core_count / D` and the shape of the rest    -> slack_add, slack_div
  * the arms of `match (job_detail.state, job_state)` in handle_update_job_state     -> transitions
  * the two uses of MAX_PER_CORE_LOAD in the server choice of handle_alloc_job (shape check only)

Anything it does not recognise raises (a broken obligation, never a pass)."""
import os
import re


class Unrecognised(Exception):
    pass


def strip_comments(src):
    src = re.sub(r'/\*.*?\*/', ' ', src, flags=re.S)
    return re.sub(r'//[^\n]*', '', src)


def norm(s):
    return re.sub(r'\s+', ' ', s).strip()


def block_after(src, start):
    """text of the brace block that starts at the first '{' at or after index `start` (inclusive braces)."""
    i = src.index('{', start)
    depth = 0
    for k in range(i, len(src)):
        if src[k] == '{':
            depth += 1
        elif src[k] == '}':
            depth -= 1
            if depth == 0:
                return src[i:k + 1]
    raise Unrecognised('unbalanced braces')


def fn_body(src, name):
    m = re.search(r'\bfn\s+' + re.escape(name) + r'\b', src)
    if not m:
        raise Unrecognised('fn %s not found' % name)
    return block_after(src, m.end())


def read(repo):
    main = strip_comments(open(os.path.join(repo, 'src/bin/sccache-dist/main.rs'), encoding='utf-8').read())
    dist = strip_comments(open(os.path.join(repo, 'src/dist/mod.rs'), encoding='utf-8').read())

    m = re.search(r'pub\s+enum\s+JobState\s*\{([^}]*)\}', dist)
    if not m:
        raise Unrecognised('enum JobState not found in src/dist/mod.rs')
    variants = [v.strip() for v in m.group(1).split(',') if v.strip()]
    if not variants or not all(re.fullmatch(r'[A-Z][A-Za-z0-9]*', v) for v in variants):
        raise Unrecognised('JobState variants not plain identifiers: %r' % variants)

    m = re.search(r'const\s+MAX_PER_CORE_LOAD\s*:\s*f64\s*=\s*(\d+)(?:f64|\.0(?:f64)?)\s*;', main)
    if not m:
        raise Unrecognised('MAX_PER_CORE_LOAD is not an integral f64 literal')
    max_load = int(m.group(1))

    lw = norm(fn_body(main, 'load_weight'))
    m = re.fullmatch(
        r'\{ let cores_plus_slack = core_count \+ (\d+) \+ core_count / (\d+); '
        r'if job_count >= cores_plus_slack \{ MAX_PER_CORE_LOAD \+ 1f64 \} '
        r'else \{ job_count as f64 / core_count as f64 \} \}', lw)
    if not m:
        raise Unrecognised('load_weight has an unexpected shape: ' + lw)
    slack_add, slack_div = int(m.group(1)), int(m.group(2))
    if slack_div == 0:
        raise Unrecognised('load_weight divides by zero')
    if not re.search(r'fn\s+load_weight\s*\(\s*job_count\s*:\s*usize\s*,\s*core_count\s*:\s*usize\s*\)\s*->\s*f64', main):
        raise Unrecognised('load_weight signature changed')

    alloc = norm(fn_body(main, 'handle_alloc_job'))
    for needle in ('let mut best_load: f64 = MAX_PER_CORE_LOAD;',
                   'let load = load_weight(details.jobs_assigned.len(), details.num_cpus);',
                   'if load < MAX_PER_CORE_LOAD {',
                   '} else if load < best_load {',
                   'if load == 0f64 { break; }',
                   'best.or(best_err)'):
        if needle not in alloc:
            raise Unrecognised('server choice in handle_alloc_job changed shape: missing `%s`' % needle)

    upd = fn_body(main, 'handle_update_job_state')
    m = re.search(r'match\s*\(\s*job_detail\.state\s*,\s*job_state\s*\)', upd)
    if not m:
        raise Unrecognised('transition match not found in handle_update_job_state')
    arms_block = block_after(upd, m.end())
    # top-level arms only: remove nested blocks
    flat = []
    depth = 0
    for ch in arms_block[1:-1]:
        if ch == '{':
            depth += 1
        elif ch == '}':
            depth -= 1
        elif depth == 0:
            flat.append(ch)
    flat = ''.join(flat)
    pats = re.findall(r'\(\s*([A-Za-z_:]+)\s*,\s*([A-Za-z_:]+)\s*\)\s*=>', flat)
    trans = []
    catch_all = False
    for a, b in pats:
        ma, mb = re.fullmatch(r'JobState::(\w+)', a), re.fullmatch(r'JobState::(\w+)', b)
        if ma and mb:
            if catch_all:
                raise Unrecognised('transition arm after the catch-all arm')
            if ma.group(1) not in variants or mb.group(1) not in variants:
                raise Unrecognised('unknown state in transition arm (%s, %s)' % (a, b))
            trans.append((ma.group(1), mb.group(1)))
        elif re.fullmatch(r'[a-z_]+', a) and re.fullmatch(r'[a-z_]+', b):
            catch_all = True
        else:
            raise Unrecognised('transition arm pattern not understood: (%s, %s)' % (a, b))
    n_arrows = len(re.findall(r'=>', flat))
    if n_arrows != len(pats):
        raise Unrecognised('transition match has arms that are not pairs (%d arms, %d pairs)' % (n_arrows, len(pats)))
    if not catch_all or not re.search(r'\(\s*from\s*,\s*to\s*\)\s*=>\s*bail!', flat):
        raise Unrecognised('transition match lacks the rejecting catch-all arm')
    return dict(variants=variants, max_load=max_load, slack_add=slack_add, slack_div=slack_div, transitions=trans)


def render(d):
    v = d['variants']
    out = ['(* GENERATED by translator/c18_consts.py from src/bin/sccache-dist/main.rs and src/dist/mod.rs — do not edit. *)',
           'From Coq Require Import List NArith.', 'Import ListNotations.', 'Local Open Scope N_scope.', '',
           '(* pub enum JobState *)',
           'Inductive jstate : Type := ' + ' | '.join(v) + '.', '',
           'Definition jstate_code (s : jstate) : N :=',
           '  match s with ' + ' | '.join('%s => %d' % (x, i) for i, x in enumerate(v)) + ' end.', '',
           'Definition all_jstates : list jstate := [' + '; '.join(v) + '].', '',
           '(* const MAX_PER_CORE_LOAD: f64 *)',
           'Definition max_per_core_load : N := %d.' % d['max_load'], '',
           '(* load_weight: cores_plus_slack = core_count + slack_add + core_count / slack_div *)',
           'Definition slack_add : N := %d.' % d['slack_add'],
           'Definition slack_div : N := %d.' % d['slack_div'], '',
           '(* the accepting arms of `match (job_detail.state, job_state)` in handle_update_job_state, in order *)',
           'Definition transitions : list (jstate * jstate) :=',
           '  [' + '; '.join('(%s, %s)' % t for t in d['transitions']) + '].', '']
    return '\n'.join(out)


# ---------------------------------------------------------------- lock acquisition order (Gen/C18Locks.v)

def blank_literals(src):
    """Rust source with comments, string literals and char literals replaced by blanks of the same length
    (they may contain braces, `?`, `//`, `lock(`).  A small lexer: comments and strings are recognised together."""
    out = []
    i = 0
    n = len(src)
    while i < n:
        c = src[i]
        if src.startswith('//', i):
            j = src.find('\n', i)
            j = n if j < 0 else j
            out.append(' ' * (j - i))
            i = j
        elif src.startswith('/*', i):
            depth = 1
            j = i + 2
            while j < n and depth:
                if src.startswith('/*', j):
                    depth += 1
                    j += 2
                elif src.startswith('*/', j):
                    depth -= 1
                    j += 2
                else:
                    j += 1
            out.append(re.sub(r'[^\n]', ' ', src[i:j]))
            i = j
        elif c == '"' or (c == 'r' and re.match(r'r#*"', src[i:]) and not (i and (src[i - 1].isalnum() or src[i - 1] == '_'))):
            if c == '"':
                j = i + 1
                while j < n and src[j] != '"':
                    j += 2 if src[j] == '\\' else 1
                j += 1
            else:
                m = re.match(r'r(#*)"', src[i:])
                end = src.find('"' + m.group(1), i + len(m.group(0)))
                if end < 0:
                    raise Unrecognised('unterminated raw string')
                j = end + 1 + len(m.group(1))
            out.append('"' + re.sub(r'[^\n]', ' ', src[i + 1:j - 1]) + '"')
            i = j
        elif c == "'":
            m = re.match(r"'(?:\\(?:x[0-9a-fA-F]{2}|u\{[0-9a-fA-F]+\}|.)|[^\\'])'", src[i:])
            if m:
                out.append("'" + ' ' * (len(m.group(0)) - 2) + "'")
                i += len(m.group(0))
            else:       # a lifetime
                out.append(c)
                i += 1
        else:
            out.append(c)
            i += 1
    return ''.join(out)


_LET_LOCK = re.compile(r'let\s+(?:mut\s+)?(\w+)\s*=\s*self\s*\.\s*(\w+)\s*\.\s*lock\s*\(\s*\)\s*\.\s*unwrap\s*\(\s*\)\s*;')
_ANY_LOCK = re.compile(r'\.\s*(?:try_)?lock\s*\(')
_OUTGOING = re.compile(r'requester\s*\.\s*(\w+)\s*\(')
_DROP = re.compile(r'drop\s*\(\s*(\w+)\s*\)')
_SELF_CALL = re.compile(r'self\s*\.\s*(\w+)\s*\(')
_EXIT = re.compile(r'return\b|bail!|\?')


def lock_events(body, lock_ids, fname, helper_bodies, handler_names):
    """Linearised mutex events of one handler body (a brace block).

    Accepted shape: every acquisition is `let [mut] g = self.<mutex>.lock().unwrap();` at statement level, so the
    guard lives exactly to the end of the enclosing block (or to an explicit `drop(g)`).  Because guards are block
    scoped, the set of locks held at any point is the same on every control-flow path that reaches it; the textual
    linearisation (each block entered once, its guards released at its end) therefore shows, for every acquisition
    and every outgoing call, exactly the locks that are held there.  Closures are taken to run where they are
    written.  Returns (main_path, [exit paths]): the whole body, and for every `return` / `?` / `bail!` the events
    up to it followed by the release of everything then held."""
    events = []
    exits = []
    stack = []      # per open block: [start_index, [(guard, lock id), ...]]
    i = 0
    n = len(body)

    def live():
        return [g for blk in stack for g in blk[1]]

    while i < n:
        c = body[i]
        boundary = i == 0 or not (body[i - 1].isalnum() or body[i - 1] == '_')
        if c == '{':
            stack.append([i, []])
            i += 1
            continue
        if c == '}':
            if not stack:
                raise Unrecognised('%s: unbalanced braces' % fname)
            start, guards = stack.pop()
            tail = body[start:i].rstrip()
            for g, _ in guards:
                if re.search(r'[;{}]\s*' + re.escape(g) + r'$', tail):
                    raise Unrecognised('%s: lock guard `%s` is moved out of its block' % (fname, g))
            for g, lid in reversed(guards):
                events.append(('Rel', lid))
            i += 1
            continue
        m = _LET_LOCK.match(body, i) if boundary else None
        if m:
            if m.group(2) not in lock_ids:
                raise Unrecognised('%s: `self.%s` is not a Mutex field of Scheduler' % (fname, m.group(2)))
            if not stack:
                raise Unrecognised('%s: acquisition outside a block' % fname)
            stack[-1][1].append((m.group(1), lock_ids[m.group(2)]))
            events.append(('Acq', lock_ids[m.group(2)]))
            i = m.end()
            continue
        if _ANY_LOCK.match(body, i):
            raise Unrecognised('%s: a lock is taken in a form other than `let g = self.<mutex>.lock().unwrap();`: %s'
                               % (fname, norm(body[max(0, i - 60):i + 30])))
        m = _OUTGOING.match(body, i) if boundary else None
        if m:
            events.append(('Block',))
            i = m.end()
            continue
        m = _DROP.match(body, i) if boundary else None
        if m:
            for blk in stack:
                for k, (g, lid) in enumerate(blk[1]):
                    if g == m.group(1):
                        events.append(('Rel', lid))
                        del blk[1][k]
                        break
            i = m.end()
            continue
        m = _SELF_CALL.match(body, i) if boundary else None
        if m and m.group(1) not in lock_ids:
            callee = m.group(1)
            if callee in handler_names:
                raise Unrecognised('%s calls the handler %s: re-entrant handlers are not understood' % (fname, callee))
            if callee in helper_bodies and _ANY_LOCK.search(helper_bodies[callee]):
                raise Unrecognised('%s calls self.%s, which takes a lock itself' % (fname, callee))
        m = _EXIT.match(body, i) if (boundary or c == '?') else None
        if m:
            held = live()
            for g, _ in held:
                if re.match(r'return\s+' + re.escape(g) + r'\s*[;}]', body[i:]):
                    raise Unrecognised('%s: lock guard `%s` is returned' % (fname, g))
            exits.append(list(events) + [('Rel', lid) for _, lid in reversed(held)])
            i = m.end()
            continue
        i += 1
    if stack:
        raise Unrecognised('%s: unbalanced braces' % fname)
    uniq = []
    for e in exits:
        if e not in uniq and e != events:
            uniq.append(e)
    return events, uniq


def read_locks(repo):
    src = open(os.path.join(repo, 'src/bin/sccache-dist/main.rs'), encoding='utf-8').read()
    main = blank_literals(src)
    m = re.search(r'pub\s+struct\s+Scheduler\s*\{([^}]*)\}', main)
    if not m:
        raise Unrecognised('struct Scheduler not found')
    fields = re.findall(r'(\w+)\s*:\s*Mutex\s*<', m.group(1))
    if len(fields) < 2:
        raise Unrecognised('struct Scheduler has fewer than two Mutex fields: %r' % fields)
    # the rule written above the struct: "do all locking at once ..., in alphabetical order"
    lock_ids = {f: k for k, f in enumerate(sorted(fields))}
    m = re.search(r'impl\s+SchedulerIncoming\s+for\s+Scheduler\b', main)
    if not m:
        raise Unrecognised('impl SchedulerIncoming for Scheduler not found')
    impl = block_after(main, m.end())
    helpers = {}
    for mi in re.finditer(r'impl\s+Scheduler\s*\{', main):
        blk = block_after(main, mi.start())
        for mf in re.finditer(r'\bfn\s+(\w+)\b', blk):
            helpers[mf.group(1)] = block_after(blk, mf.end())
    handlers = {}
    depth = 0
    for mf in re.finditer(r'[{}]|\bfn\s+(\w+)\b', impl):
        if mf.group(0) == '{':
            depth += 1
        elif mf.group(0) == '}':
            depth -= 1
        elif depth == 1:
            handlers[mf.group(1)] = block_after(impl, mf.end())
    if not handlers or not all(h.startswith('handle_') for h in handlers):
        raise Unrecognised('unexpected methods in impl SchedulerIncoming for Scheduler: %r' % sorted(handlers))
    out = {}
    for name in sorted(handlers):
        out[name] = lock_events(handlers[name], lock_ids, name, helpers, set(handlers))
    return dict(lock_ids=lock_ids, handlers=out)


def _ev(e):
    return 'Block' if e[0] == 'Block' else '%s %d' % e


def render_locks(d):
    ids = d['lock_ids']
    out = ['(* GENERATED by translator/c18_consts.py from src/bin/sccache-dist/main.rs — do not edit.',
           '   The mutex events of every SchedulerIncoming handler of Scheduler, in the order the source performs them',
           '   (guards are block scoped; Block = a call through `requester`, i.e. do_assign_job). *)',
           'From Coq Require Import List NArith String.', 'From Sccache Require Import Model.LockOrder.',
           'Import ListNotations.', 'Local Open Scope N_scope.', '',
           '(* the Mutex fields of struct Scheduler, numbered in alphabetical order (the locking rule of main.rs) *)',
           'Definition lock_names : list (string * N) :=',
           '  [' + '; '.join('("%s"%%string, %d)' % (f, k) for f, k in sorted(ids.items(), key=lambda x: x[1])) + '].', '',
           '(* one entry per handler: the whole body *)',
           'Definition handler_main_paths : list (string * list lev) :=', '  [']
    mains = []
    exits = []
    for name, (main, ex) in d['handlers'].items():
        mains.append('   ("%s"%%string, [%s])' % (name, '; '.join(_ev(e) for e in main)))
        for e in ex:
            exits.append('   ("%s"%%string, [%s])' % (name, '; '.join(_ev(x) for x in e)))
    out.append(';\n'.join(mains))
    out += ['  ].', '', '(* one entry per early exit (return / ? / bail!): the events up to it, then everything held is released *)',
            'Definition handler_exit_paths : list (string * list lev) :=', '  [']
    out.append(';\n'.join(exits))
    out += ['  ].', '', 'Definition handler_paths : list (list lev) :=',
            '  map snd handler_main_paths ++ map snd handler_exit_paths.', '']
    return '\n'.join(out)


def _write_if_changed(p, txt):
    os.makedirs(os.path.dirname(p), exist_ok=True)
    old = open(p).read() if os.path.exists(p) else None
    if old != txt:  # keep the timestamp when nothing changed, so make does not rebuild the proofs
        open(p, 'w').write(txt)


def write(repo, coq_dir):
    d = read(repo)
    _write_if_changed(os.path.join(coq_dir, 'theories', 'Gen', 'C18Consts.v'), render(d))
    return d


def write_locks(repo, coq_dir):
    d = read_locks(repo)
    _write_if_changed(os.path.join(coq_dir, 'theories', 'Gen', 'C18Locks.v'), render_locks(d))
    return d


if __name__ == '__main__':
    import sys
    repo = sys.argv[1] if len(sys.argv) > 1 else os.environ.get('VERIF_REPO', '/repo')
    here = os.path.dirname(os.path.dirname(os.path.abspath(__file__)))
    print(write(repo, os.path.join(here, 'coq')))
    print(write_locks(repo, os.path.join(here, 'coq')))
