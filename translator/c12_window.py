"""Translator for C12: reads the SHAPE of `SccacheService::compiler_info` (src/server.rs) and of the C compiler
detection (src/compiler/compiler.rs `detect_c_compiler`, src/compiler/c.rs `CCompiler::new`) that the window part of
Model/CompilerCache.v depends on, and writes coq/theories/Gen/C12Window.v saying which modelled variant the tree is.

What the model relies on (anything else raises = broken obligation, never a pass):
  * the `compilers` map is keyed by (requested path, resolved path) and a memo hit needs `entry.mtime == mtime`;
  * `mtime` is bound ONCE, before `get_compiler_info` is awaited, and it is the value stored in the entry
    (an entry must never pair a digest with an mtime read AFTER that digest's bytes);
  * the executable is hashed by `CCompiler::new` AFTER the detection probe has finished (never concurrently with /
    before the probe), and `CCompiler::new` is the only place a `CCompiler` is built;
  * either the result is memoised unconditionally (-> VAsFound) or only if a re-stat of the path the mtime was read
    from still gives that mtime, else `None` is stored (-> VFixed).
"""
import os
import re


def fn_body(src, header_re, what):
    m = re.search(header_re, src, re.S)
    if not m:
        raise RuntimeError('%s not found' % what)
    i = m.end() - 1    # the header regex ends at the opening brace of the body
    depth = 0
    j = i
    while j < len(src):
        c = src[j]
        if c == '{':
            depth += 1
        elif c == '}':
            depth -= 1
            if depth == 0:
                return src[i:j + 1]
        j += 1
    raise RuntimeError('%s: unbalanced braces' % what)


def strip_comments(s):
    s = re.sub(r'//[^\n]*', '', s)
    return re.sub(r'/\*.*?\*/', '', s, flags=re.S)


def run(repo, coq):
    server = open(os.path.join(repo, 'src/server.rs'), encoding='utf-8').read()
    body = strip_comments(fn_body(server, r'pub\s+async\s+fn\s+compiler_info\s*\([^{;]*?\)\s*->\s*Result<Box<dyn Compiler<C>>>\s*\{',
                                  'SccacheService::compiler_info'))
    facts = {}
    # ---- key and hit condition
    keys = re.findall(r'let\s+compilers_key\s*=\s*([^;]+);', body)
    if [re.sub(r'\s+', '', k) for k in keys] != ['(path.clone(),resolved_compiler_path.clone())']:
        raise RuntimeError('compilers_key is not (path.clone(), resolved_compiler_path.clone()): %r' % keys)
    if not re.search(r'HashMap<\(PathBuf,\s*PathBuf\),\s*Option<CompilerCacheEntry<C>>>', server):
        raise RuntimeError('CompilerMap is not HashMap<(PathBuf, PathBuf), Option<CompilerCacheEntry<C>>>')
    if len(re.findall(r'entry\.mtime\s*==\s*mtime\s*&&\s*entry\.dist_info\s*==\s*dist_info', body)) != 1 \
            or re.search(r'entry\.mtime\s*(<=|>=|<|>|!=)', body) or re.search(r'mtime\s*(<=|>=|<|>)\s*entry\.mtime', body):
        raise RuntimeError('a memo hit is no longer exactly `entry.mtime == mtime && entry.dist_info == dist_info`')
    # ---- mtime: bound once, before the detection, and that is what is stored
    gi = body.find('get_compiler_info::<C>(')
    if gi < 0 or body.count('get_compiler_info::<C>(') != 1:
        raise RuntimeError('compiler_info does not call get_compiler_info::<C>( exactly once')
    binds = [m.start() for m in re.finditer(r'let\s+(?:mut\s+)?(?:\([^()]*\bmtime\b[^()]*\)|mtime\b)\s*(?::[^=;]+)?=', body)]
    if len(binds) != 1 or binds[0] > gi:
        raise RuntimeError('`mtime` must be bound exactly once, BEFORE get_compiler_info is awaited (found %d binding(s), '
                           '%d after the detection): an entry must not carry an mtime read after the executable was hashed'
                           % (len(binds), len([b for b in binds if b > gi])))
    news = re.findall(r'CompilerCacheEntry::new\(\s*([^,()]+(?:\([^()]*\))?)\s*,\s*([^,]+?)\s*,\s*([^,)]+?)\s*\)', body)
    if len(news) != 1 or news[0][1] != 'mtime':
        raise RuntimeError('the memo entry is not built as CompilerCacheEntry::new(.., mtime, ..): %r' % news)
    after = body[gi:]
    # ---- memoise unconditionally, or only when the file is unchanged
    guard = re.search(r'let\s+unchanged\s*=\s*metadata\(&stat_path\)\s*\.map\(\|attr\|\s*FileTime::from_last_modification_time\(&attr\)\s*==\s*mtime\)\s*'
                      r'\.unwrap_or\(false\)\s*;', after)
    guarded_entry = re.search(r'let\s+map_info\s*=\s*if\s+unchanged\s*\{\s*Some\(CompilerCacheEntry::new\(c\.clone\(\),\s*mtime,\s*dist_info\)\)\s*\}\s*'
                              r'else\s*\{\s*None\s*\}\s*;', after)
    plain_entry = re.search(r'let\s+map_info\s*=\s*CompilerCacheEntry::new\(c\.clone\(\),\s*mtime,\s*dist_info\)\s*;', after)
    ins = [re.sub(r'\s+', '', x) for x in re.findall(r'\.insert\(\s*compilers_key\s*,\s*([^;]+?)\)\s*;', after)]
    nmeta_after = len(re.findall(r'\bmetadata\(', after)) + len(re.findall(r'symlink_metadata\(', after))
    if guard and guarded_entry and sorted(ins) == ['None', 'map_info'] and nmeta_after == 1:
        sp = body.find('let stat_path = resolved_compiler_path.clone();')
        cz = body.find('.canonicalize()')
        if sp < 0 or cz < 0 or sp > cz:
            raise RuntimeError('stat_path is not the resolved path BEFORE canonicalisation')
        variant = 'VFixed'
    elif plain_entry and not guard and sorted(ins) == ['None', 'Some(map_info)'] and nmeta_after == 0:
        variant = 'VAsFound'
    else:
        raise RuntimeError('the way compiler_info memoises a detection is not recognised (inserts %r, %d stat(s) after the '
                           'detection, guard=%s)' % (ins, nmeta_after, bool(guard)))
    facts['variant'] = variant
    # ---- the digest is read after the probe, by CCompiler::new only
    comp = open(os.path.join(repo, 'src/compiler/compiler.rs'), encoding='utf-8').read()
    dbody = strip_comments(fn_body(comp, r'async\s+fn\s+detect_c_compiler<T,\s*P>\s*\([^{;]*?\)\s*->\s*Result<Box<dyn Compiler<T>>>\s*where[^{;]*\{',
                                   'detect_c_compiler'))
    w = dbody.find('.wait_with_output()')
    if w < 0:
        raise RuntimeError('detect_c_compiler no longer waits for the probe with wait_with_output()')
    for bad in ('Digest::', 'spawn_blocking', 'File::open', 'executable_digest'):
        if bad in dbody:
            raise RuntimeError('detect_c_compiler mentions %s: the executable must be hashed by CCompiler::new after the probe' % bad)
    ctor = [m.start() for m in re.finditer(r'CCompiler::new\(', dbody)]
    if not ctor or min(ctor) < w:
        raise RuntimeError('detect_c_compiler builds a CCompiler before the probe has finished')
    if re.search(r'CCompiler::(?!new\()\w+\(', dbody):
        raise RuntimeError('detect_c_compiler builds a CCompiler through something other than CCompiler::new')
    crs = strip_comments(open(os.path.join(repo, 'src/compiler/c.rs'), encoding='utf-8').read())
    nb = fn_body(crs, r'pub\s+async\s+fn\s+new\s*\(\s*compiler:\s*I,\s*executable:\s*PathBuf,\s*pool:\s*&tokio::runtime::Handle,?\s*\)\s*->\s*Result<CCompiler<I>>\s*\{',
                 'CCompiler::new')
    if not re.search(r'let\s+digest\s*=\s*Digest::file\(executable\.clone\(\),\s*pool\)\.await\?;', nb):
        raise RuntimeError('CCompiler::new no longer hashes the executable itself')
    if len(re.findall(r'\bCCompiler\s*\{\s*executable\b', crs)) != 1 or not re.search(r'\bCCompiler\s*\{\s*executable\b', nb):
        raise RuntimeError('a CCompiler is built outside CCompiler::new (a caller could supply a digest taken at another time)')
    facts['digest'] = 'CCompiler::new, after wait_with_output()'
    # the digest is the file's: no memo of digests by file identity between the file and CCompiler::new
    if not re.search(r'let\s+digest\s*=\s*Digest::file\(executable\.clone\(\),\s*pool\)\.await\?;\s*Ok\(CCompiler\s*\{', nb):
        raise RuntimeError('CCompiler::new does not build the CCompiler straight from Digest::file(executable)')
    # ---- the rustc side (Model/RustToolchain.v)
    rust = strip_comments(open(os.path.join(repo, 'src/compiler/rust.rs'), encoding='utf-8').read())
    if not re.search(r'pub\s+struct\s+RustupProxy\s*\{\s*proxy_executable:\s*PathBuf,\s*\}', rust):
        raise RuntimeError('RustupProxy carries more than the path of rustup: a proxy that remembers anything about a '
                           'resolution is not what Model/RustToolchain.v describes (rustup is asked for every request)')
    rb = fn_body(rust, r'fn\s+resolve_proxied_executable\s*\([^{;]*?\)\s*->\s*Pin<Box<dyn Future<Output = Result<\(PathBuf, FileTime\)>> \+ Send>>\s*\{',
                 'RustupProxy::resolve_proxied_executable')
    if len(re.findall(r'run_input_output\(child,\s*None\)', rb)) != 1 or re.search(r'\b(match|if)\b[^;{]*\bremembered\b', rb) \
            or 'fs::metadata(proxied_compiler.as_path())' not in rb:
        raise RuntimeError('resolve_proxied_executable no longer runs `rustup which rustc` and stats the answer unconditionally')
    if not re.search(r'\(t\.is_file\(\)\s*\|\|\s*t\.is_symlink\(\)\s*&&\s*p\.is_file\(\)\)\s*&&\s*p\.extension\(\)', rust):
        raise RuntimeError('Rust::new no longer hashes regular files AND links to regular files among <sysroot>/lib/*.so')
    facts['rust'] = 'proxy asked per request; sysroot libs through links'
    gen = os.path.join(coq, 'theories', 'Gen')
    os.makedirs(gen, exist_ok=True)
    txt = ('(* GENERATED by translator/c12_window.py from src/server.rs, src/compiler/compiler.rs, src/compiler/c.rs — do not edit *)\n'
           'From Sccache Require Import Model.CompilerCache.\n'
           'Definition tree_variant : variant := %s.\n' % variant)
    p = os.path.join(gen, 'C12Window.v')
    if not os.path.exists(p) or open(p).read() != txt:
        open(p, 'w').write(txt)
    return facts
