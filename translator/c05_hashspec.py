"""c05_hashspec.py — reads `RustHasher::generate_hash_key`, `parse_dep_info`, `parse_env_dep_info` and `CACHE_VERSION`
in src/compiler/rust.rs and writes coq/theories/Gen/C05HashSpec.v: the ORDER of the components fed to the key digest
and every constant that decides what is hashed (version tag, excluded / sorted arguments, the argument terminator,
the env-dep markers, the CARGO_* filter).

The hashing part of the function (from `let mut m = Digest::new();` to the last `.hash(&mut HashToDigest ..)`) is
split into statements and every statement must match exactly one known pattern; anything else raises.
"""
import os
import re


class Unrecognised(Exception):
    pass


def strip_comments(src):
    out = []
    i = 0
    n = len(src)
    while i < n:
        c = src[i]
        if c == '"':
            j = i + 1
            while j < n and src[j] != '"':
                j += 2 if src[j] == '\\' else 1
            out.append(src[i:j + 1])
            i = j + 1
        elif src.startswith('//', i):
            while i < n and src[i] != '\n':
                i += 1
        elif src.startswith('/*', i):
            i = src.index('*/', i) + 2
        elif c == "'" and i + 2 < n and (src[i + 2] == "'" or (src[i + 1] == '\\' and src[i + 3] == "'")):
            j = i + (3 if src[i + 2] == "'" else 4)
            out.append(src[i:j])
            i = j
        else:
            out.append(c)
            i += 1
    return ''.join(out)


def squeeze(src):
    """remove all whitespace outside string literals"""
    out = []
    i = 0
    n = len(src)
    while i < n:
        c = src[i]
        if c == '"':
            j = i + 1
            while j < n and src[j] != '"':
                j += 2 if src[j] == '\\' else 1
            out.append(src[i:j + 1])
            i = j + 1
        elif c.isspace():
            i += 1
        else:
            out.append(c)
            i += 1
    return ''.join(out)


def fn_body(src, header_re):
    m = re.search(header_re, src)
    if not m:
        raise Unrecognised('function not found: ' + header_re)
    i = src.index('{', m.end() - 1) if src[m.end() - 1] != '{' else m.end() - 1
    # the header regex ends right before the body's opening brace
    depth = 0
    j = i
    n = len(src)
    while j < n:
        c = src[j]
        if c == '"':
            j += 1
            while src[j] != '"':
                j += 2 if src[j] == '\\' else 1
        elif c == '{':
            depth += 1
        elif c == '}':
            depth -= 1
            if depth == 0:
                return src[i + 1:j]
        j += 1
    raise Unrecognised('unbalanced braces after ' + header_re)


def statements(sq):
    """top-level statements of a squeezed block: `...;` or `for/if/match/while ...{...}` (no trailing ;)"""
    out = []
    i = 0
    n = len(sq)
    start = 0
    depth = 0
    while i < n:
        c = sq[i]
        if c == '"':
            i += 1
            while sq[i] != '"':
                i += 2 if sq[i] == '\\' else 1
        elif c in '({[':
            depth += 1
        elif c in ')}]':
            depth -= 1
            if depth == 0 and c == '}':
                head = sq[start:i + 1]
                if head.startswith(('for', 'if', 'while', 'match', 'loop')) and not (i + 1 < n and sq[i + 1] in ';.?'):
                    # `if ..{..}else{..}` continues
                    if not sq.startswith('else', i + 1):
                        out.append(head)
                        start = i + 1
        elif c == ';' and depth == 0:
            out.append(sq[start:i + 1])
            start = i + 1
        i += 1
    if sq[start:].strip():
        out.append(sq[start:])
    return out


def lit_bytes(body):
    """bytes of a Rust (byte) string literal body"""
    out = []
    i = 0
    while i < len(body):
        c = body[i]
        if c == '\\':
            e = body[i + 1]
            if e == '0':
                out.append(0)
                i += 2
            elif e == 'n':
                out.append(10)
                i += 2
            elif e == 'r':
                out.append(13)
                i += 2
            elif e == 't':
                out.append(9)
                i += 2
            elif e == '\\':
                out.append(92)
                i += 2
            elif e == '"':
                out.append(34)
                i += 2
            elif e == 'x':
                out.append(int(body[i + 2:i + 4], 16))
                i += 4
            else:
                raise Unrecognised('escape \\' + e)
        else:
            out += list(c.encode('utf-8'))
            i += 1
    return out


H = r'&mutHashToDigest\{digest:&mutm\}'
STR = r'"((?:\\.|[^"\\])*)"'

GROUPS = {'source_hashes': 'DSource', 'extern_hashes': 'DExtern', 'staticlib_hashes': 'DStaticlib',
          'target_json_hash': 'DTargetJson'}


def parse_args_block(inner, spec):
    m = re.match(r'let\(mutsortables,rest\):\(Vec<_>,Vec<_>\)=os_string_arguments\.iter\(\)(.*?)'
                 r'\.partition\(\|&\(arg,_\)\|(.*?)\);sortables\.sort\(\);'
                 r'rest\.into_iter\(\)\.chain\(sortables\)'
                 r'\.flat_map\(\|\(arg,val\)\|iter::once\(arg\)\.chain\(val\.as_ref\(\)\)\)'
                 r'\.fold\(OsString::new\(\),\|muta,b\|\{a\.push\(b\);(?:a\.push\(' + STR + r'\);)?a\}\)$', inner)
    if not m:
        raise Unrecognised('argument string block: ' + inner[:400])
    filters, part, term = m.group(1), m.group(2), m.group(3)
    spec['arg_terminator'] = lit_bytes(term) if term is not None else []
    spec['arg_excluded'] = []
    spec['arg_excluded_if_target_json'] = []
    pos = 0
    while pos < len(filters):
        f = re.match(r'\.filter\(\|&\(arg,_\)\|', filters[pos:])
        if not f:
            raise Unrecognised('argument filter chain: ' + filters[pos:pos + 200])
        # find the matching ')' of .filter(
        depth = 1
        j = pos + len('.filter(')
        while depth:
            if filters[j] == '"':
                j += 1
                while filters[j] != '"':
                    j += 2 if filters[j] == '\\' else 1
            elif filters[j] == '(':
                depth += 1
            elif filters[j] == ')':
                depth -= 1
            j += 1
        cond = filters[pos + f.end():j - 1]
        pos = j
        m1 = re.match(r'!\((arg==' + STR + r'(?:\|\|arg==' + STR + r')*)\)$', cond)
        m2 = re.match(r'target_json\.is_none\(\)\|\|arg!=' + STR + r'$', cond)
        if m1:
            spec['arg_excluded'] += [lit_bytes(x) for x in re.findall(r'arg==' + STR, cond)]
        elif m2:
            spec['arg_excluded_if_target_json'].append(lit_bytes(m2.group(1)))
        else:
            raise Unrecognised('argument filter condition: ' + cond)
    mp = re.match(r'(arg==' + STR + r')(?:\|\|arg==' + STR + r')*$', part)
    if not mp:
        raise Unrecognised('partition condition: ' + part)
    spec['arg_sorted_last'] = [lit_bytes(x) for x in re.findall(r'arg==' + STR, part)]


def read_spec(repo):
    src = open(os.path.join(repo, 'src', 'compiler', 'rust.rs'), encoding='utf-8').read()
    src = strip_comments(src)
    spec = {}
    m = re.search(r'const\s+CACHE_VERSION\s*:\s*&\[u8\]\s*=\s*b' + STR + r'\s*;', src)
    if not m:
        raise Unrecognised('CACHE_VERSION')
    spec['cache_version'] = lit_bytes(m.group(1))

    # --- parse_dep_info / parse_env_dep_info constants
    body = squeeze(fn_body(src, r'fn\s+parse_dep_info<T>\s*\([^)]*\)\s*->\s*Vec<PathBuf>\s*where\s*T:\s*AsRef<Path>,\s*\{'))
    m = re.search(r'line\.find\(' + STR + r'\)', body)
    if not m or 'line[pos+2..]' not in body or 'dep_info.lines().next()' not in body or 'deps.sort();' not in body:
        raise Unrecognised('parse_dep_info shape')
    spec['dep_separator'] = lit_bytes(m.group(1))
    body = squeeze(fn_body(src, r'fn\s+parse_env_dep_info\s*\([^)]*\)\s*->\s*Vec<\(OsString,\s*(?:Option<OsString>|OsString)\)>\s*\{'))
    m = re.search(r'line\.strip_prefix\(' + STR + r'\)', body)
    m2 = re.search(r"env_dep\.splitn\(2,'(.)'\)", body)
    if not m or not m2:
        raise Unrecognised('parse_env_dep_info shape')
    spec['env_dep_prefix'] = lit_bytes(m.group(1))
    spec['env_dep_split'] = ord(m2.group(1))
    if '_=>env_deps.push((env_dep.into(),None))' in body and '=>env_deps.push((var.into(),Some(val.into())))' in body:
        spec['env_dep_unset_is_none'] = True
    elif '_=>env_deps.push((env_dep.into(),"".into()))' in body:
        spec['env_dep_unset_is_none'] = False
    else:
        raise Unrecognised('parse_env_dep_info arms: ' + body)

    # --- generate_hash_key
    body = fn_body(src, r'async\s+fn\s+generate_hash_key\s*\(\s*self\s*:\s*Box<Self>[^{]*?->\s*Result<HashResult<T>>\s*\{')
    # only the RustHasher one mentions compiler_shlibs_digests
    if 'compiler_shlibs_digests' not in body:
        raise Unrecognised('generate_hash_key of RustHasher not found')
    sq = squeeze(body)
    start = sq.find('letmutm=Digest::new();')
    if start < 0:
        raise Unrecognised('Digest::new')
    last = max(sq.rfind('.hash(&mutHashToDigest'), sq.rfind('m.update('))
    end = sq.index(';', last) + 1
    # a for-loop body may follow: extend to the closing brace of the enclosing top-level statement
    region = sq[start:]
    sts = []
    consumed = 0
    for st in statements(region):
        sts.append(st)
        consumed += len(st)
        if start + consumed >= end:
            break
    rest = region[consumed:]
    if re.search(r'\bm\.update\(|HashToDigest', rest):
        raise Unrecognised('digest updated after the recognised region')
    before = sq[:start]
    if re.search(r'\bm\.update\(|HashToDigest', before):
        raise Unrecognised('digest updated before the recognised region')
    if not re.search(r'key:m\.finish\(\)', rest):
        raise Unrecognised('key is not m.finish()')

    comps = []
    spec['weak_key_after'] = None
    spec['env_dep_sorted'] = False
    spec['env_sorted'] = False
    seen_envfilter = False
    for st in sts:
        if st == 'letmutm=Digest::new();':
            continue
        if st == 'm.update(CACHE_VERSION);':
            comps.append('HCacheVersion')
            continue
        if st == 'fordincompiler_shlibs_digests{m.update(d.as_bytes());}':
            comps.append('HShlibDigests')
            continue
        if st == 'letweak_toolchain_key=m.clone().finish();':
            spec['weak_key_after'] = len(comps)
            continue
        m = re.match(r'letargs=\{(.*)\};$', st)
        if m:
            parse_args_block(m.group(1), spec)
            continue
        if re.match(r'args\.hash\(' + H + r'\);$', st):
            if 'arg_terminator' not in spec:
                raise Unrecognised('args hashed before being built')
            comps.append('HArguments')
            continue
        m = re.match(r'forhin(\w+)\.into_iter\(\)((?:\.chain\(\w+\))*)\{m\.update\(h\.as_bytes\(\)\);\}$', st)
        if m:
            names = [m.group(1)] + re.findall(r'\.chain\((\w+)\)', m.group(2))
            for nm in names:
                if nm not in GROUPS:
                    raise Unrecognised('digest group ' + nm)
            comps.append('HFileDigests [' + '; '.join(GROUPS[nm] for nm in names) + ']')
            continue
        if st == 'env_deps.sort();':
            spec['env_dep_sorted'] = True
            continue
        m = re.match(r'for\(var,val\)inenv_deps\.iter\(\)\{var\.hash\(' + H + r'\);(.*)\}$', st)
        if m:
            b = m.group(1)
            old = re.match(r'm\.update\(b' + STR + r'\);val\.hash\(' + H + r'\);$', b)
            new = re.match(r'matchval\{Some\(val\)=>\{m\.update\(b' + STR + r'\);val\.hash\(' + H + r'\);\}'
                           r'None=>m\.update\(b' + STR + r'\),\}$', b)
            if old:
                spec['env_dep_set_marker'] = lit_bytes(old.group(1))
                spec['env_dep_unset_marker'] = None
            elif new:
                spec['env_dep_set_marker'] = lit_bytes(new.group(1))
                spec['env_dep_unset_marker'] = lit_bytes(new.group(2))
            else:
                raise Unrecognised('env-dep hashing loop: ' + b)
            if not spec['env_dep_sorted']:
                raise Unrecognised('env_deps hashed unsorted')
            comps.append('HEnvDeps')
            continue
        m = re.match(r'letmutenv_vars:Vec<_>=env_vars\.iter\(\)\.filter\(\|\(refk,_\)\|k!=' + STR + r'\)\.cloned\(\)\.collect\(\);$', st)
        if m:
            spec['env_dropped'] = [lit_bytes(m.group(1))]
            seen_envfilter = True
            continue
        if st == 'env_vars.sort();':
            spec['env_sorted'] = True
            continue
        m = re.match(r'for\(var,val\)inenv_vars\.iter\(\)\{if!var\.starts_with\(' + STR + r'\)\{continue;\}'
                     r'ifvar==' + STR + r'\|\|var\.starts_with\(' + STR + r'\)\{continue;\}'
                     r'var\.hash\(' + H + r'\);m\.update\(b' + STR + r'\);val\.hash\(' + H + r'\);\}$', st)
        if m:
            if not (seen_envfilter and spec['env_sorted']):
                raise Unrecognised('CARGO_ loop before filter/sort')
            spec['cargo_prefix'] = lit_bytes(m.group(1))
            spec['cargo_skip_exact'] = [lit_bytes(m.group(2))]
            spec['cargo_skip_prefix'] = [lit_bytes(m.group(3))]
            spec['cargo_separator'] = lit_bytes(m.group(4))
            comps.append('HCargoEnv')
            continue
        if re.match(r'cwd\.hash\(' + H + r'\);$', st):
            comps.append('HCwd')
            continue
        if re.match(r'version\.hash\(' + H + r'\);$', st):
            comps.append('HRustcVersion')
            continue
        raise Unrecognised('statement in the hashing part of generate_hash_key: ' + st[:300])
    spec['hash_spec'] = comps
    for k in ('arg_terminator', 'env_dep_set_marker', 'cargo_prefix'):
        if k not in spec:
            raise Unrecognised('component missing: ' + k)
    if spec['weak_key_after'] is None:
        raise Unrecognised('weak_toolchain_key')
    return spec


def coq_bytes(b):
    return '[' + '; '.join(str(x) for x in b) + ']'


def coq_list(bs):
    return '[' + '; '.join(coq_bytes(b) for b in bs) + ']'


def render(spec):
    L = []
    L.append('(* GENERATED by translator/c05_hashspec.py from src/compiler/rust.rs — do not edit. *)')
    L.append('From Coq Require Import List NArith.')
    L.append('Import ListNotations.')
    L.append('Local Open Scope N_scope.')
    L.append('')
    L.append('Inductive digest_group : Type := DSource | DExtern | DStaticlib | DTargetJson.')
    L.append('')
    L.append('(* one statement (or loop) that feeds the key digest, in source order *)')
    L.append('Inductive hcomp : Type :=')
    L.append('| HCacheVersion | HShlibDigests | HArguments | HFileDigests (gs : list digest_group)')
    L.append('| HEnvDeps | HCargoEnv | HCwd | HRustcVersion.')
    L.append('')
    L.append('Definition cache_version : list N := %s.' % coq_bytes(spec['cache_version']))
    L.append('Definition hash_spec : list hcomp := [%s].' % '; '.join(spec['hash_spec']))
    L.append('Definition weak_key_after : nat := %d.' % spec['weak_key_after'])
    L.append('Definition arg_excluded : list (list N) := %s.' % coq_list(spec['arg_excluded']))
    L.append('Definition arg_excluded_if_target_json : list (list N) := %s.' % coq_list(spec['arg_excluded_if_target_json']))
    L.append('Definition arg_sorted_last : list (list N) := %s.' % coq_list(spec['arg_sorted_last']))
    L.append('Definition arg_terminator : list N := %s.' % coq_bytes(spec['arg_terminator']))
    L.append('Definition env_dep_set_marker : list N := %s.' % coq_bytes(spec['env_dep_set_marker']))
    L.append('Definition env_dep_unset_marker : option (list N) := %s.'
             % ('None' if spec['env_dep_unset_marker'] is None else 'Some ' + coq_bytes(spec['env_dep_unset_marker'])))
    L.append('Definition env_dep_unset_is_none : bool := %s.' % ('true' if spec['env_dep_unset_is_none'] else 'false'))
    L.append('Definition env_dropped : list (list N) := %s.' % coq_list(spec['env_dropped']))
    L.append('Definition cargo_prefix : list N := %s.' % coq_bytes(spec['cargo_prefix']))
    L.append('Definition cargo_skip_exact : list (list N) := %s.' % coq_list(spec['cargo_skip_exact']))
    L.append('Definition cargo_skip_prefix : list (list N) := %s.' % coq_list(spec['cargo_skip_prefix']))
    L.append('Definition cargo_separator : list N := %s.' % coq_bytes(spec['cargo_separator']))
    L.append('Definition dep_separator : list N := %s.' % coq_bytes(spec['dep_separator']))
    L.append('Definition env_dep_prefix_src : list N := %s.' % coq_bytes(spec['env_dep_prefix']))
    L.append('Definition env_dep_split : N := %d.' % spec['env_dep_split'])
    L.append('')
    return '\n'.join(L)


def generate(repo, coq_dir):
    spec = read_spec(repo)
    out = os.path.join(coq_dir, 'theories', 'Gen', 'C05HashSpec.v')
    os.makedirs(os.path.dirname(out), exist_ok=True)
    txt = render(spec)
    if not os.path.exists(out) or open(out).read() != txt:
        open(out, 'w').write(txt)
    return spec


if __name__ == '__main__':
    import sys
    s = read_spec(sys.argv[1] if len(sys.argv) > 1 else '/repo')
    print(render(s))
