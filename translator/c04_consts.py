"""c04_consts.py — transcribe the constants the C04 models depend on from the Rust sources into
coq/theories/Gen/C04Consts.v (regenerated on every run; fails loudly on anything it does not recognise).

  src/util.rs                       HASH_BUFFER_SIZE, MAX_HAYSTACK_LEN, the three (pattern, flag) pairs of
                                    TimeMacroFinder::find_macros (in source order)
  src/compiler/preprocessor_cache.rs  MAX_PREPROCESSOR_CACHE_ENTRIES, MAX_PREPROCESSOR_CACHE_FILE_INFO_ENTRIES,
                                    CACHED_ENV_VARS (the allow-list of the preprocessor-cache key)
  src/compiler/c.rs                 generate_hash_key: the source order of "take the start instant", "run the
                                    preprocessor", "record the includes" (emitted as data: prelude_order)
"""
import os
import re


def _int_expr(s):
    s = s.strip().replace('_', '')
    if not re.fullmatch(r'[0-9*+ ()]+', s):
        raise ValueError('unrecognised integer expression: %r' % s)
    return int(eval(s, {'__builtins__': {}}))


def _one(pat, txt, what):
    m = re.findall(pat, txt, re.S)
    if len(m) != 1:
        raise ValueError('%s: expected exactly one match, got %d' % (what, len(m)))
    return m[0]


def _coq_bytes(b):
    return '[' + '; '.join(str(c) for c in b) + ']'


def generate(repo, out_path):
    util = open(os.path.join(repo, 'src/util.rs'), encoding='utf-8').read()
    pp = open(os.path.join(repo, 'src/compiler/preprocessor_cache.rs'), encoding='utf-8').read()

    buf = _int_expr(_one(r'pub const HASH_BUFFER_SIZE: usize = ([^;]+);', util, 'HASH_BUFFER_SIZE'))
    hay = _one(r'const MAX_HAYSTACK_LEN: usize = ([^;]+);', util, 'MAX_HAYSTACK_LEN')
    m = re.fullmatch(r'b"([A-Za-z_]+)"\.len\(\)', hay.strip())
    if m:
        hay_len = len(m.group(1))
    else:
        hay_len = _int_expr(hay)

    body = _one(r'fn find_macros\(&self, buffer: &\[u8\]\) \{(.*?)\n    \}\n', util, 'find_macros body')
    body_nc = re.sub(r'//[^\n]*', '', body)
    pairs = re.findall(r'if memchr::memmem::find\(buffer, b"([^"]+)"\)\.is_some\(\) \{\s*self\.(found_[a-z]+)\.set\(true\);\s*\};?',
                       body_nc)
    rest = re.sub(r'if memchr::memmem::find\(buffer, b"([^"]+)"\)\.is_some\(\) \{\s*self\.(found_[a-z]+)\.set\(true\);\s*\};?',
                  '', body_nc).strip()
    if rest:
        raise ValueError('find_macros contains statements the translator does not understand: %r' % rest[:200])
    flags = {f: p for p, f in pairs}
    if sorted(flags) != ['found_date', 'found_time', 'found_timestamp'] or len(pairs) != 3:
        raise ValueError('find_macros: expected exactly the three flags, got %r' % pairs)
    for p in flags.values():
        if '\\' in p:
            raise ValueError('escape sequences in a pattern are not supported: %r' % p)

    # the allow-list of the preprocessor-cache key
    lst = _one(r'static CACHED_ENV_VARS: Lazy<HashSet<&\'static OsStr>> = Lazy::new\(\|\| \{\s*\[(.*?)\]\s*\.iter\(\)\s*\.map\(OsStr::new\)\s*\.collect\(\)',
               pp, 'CACHED_ENV_VARS of preprocessor_cache.rs')
    lst_nc = re.sub(r'//[^\n]*', '', lst)
    env_pp = re.findall(r'"([A-Za-z0-9_]+)"', lst_nc)
    if re.sub(r'"[A-Za-z0-9_]+"\s*,?', '', lst_nc).strip() or not env_pp:
        raise ValueError('CACHED_ENV_VARS: unrecognised list syntax: %r' % lst_nc[:200])

    # ---- order of the three steps of the direct-mode prelude in generate_hash_key (src/compiler/c.rs) ----
    # 0 = the compile start instant is taken, 1 = the preprocessor is run, 2 = the includes are recorded
    # (process_preprocessed_file / add_result, both with that instant).  The ORDER FOUND is emitted; that it is
    # [0; 1; 2] is a proof obligation (Proofs/PpTimeline.v prelude_order_ok), not something checked here.
    crs = open(os.path.join(repo, 'src/compiler/c.rs'), encoding='utf-8').read()
    m = re.search(r'async fn generate_hash_key\(.*?\n    \}\n', crs, re.S)
    if not m:
        raise ValueError('generate_hash_key not found in src/compiler/c.rs')
    body = re.sub(r'//[^\n]*', '', m.group(0))
    takes = [x.start() for x in re.finditer(r'let\s+(?:mut\s+)?start_of_compilation\s*=\s*(?:std::time::)?SystemTime::now\(\)\s*;', body)]
    if len(takes) != 1:
        raise ValueError('generate_hash_key: expected exactly one `let start_of_compilation = SystemTime::now();`, found %d' % len(takes))
    if len(re.findall(r'start_of_compilation\s*=[^=]', body)) != 1:
        raise ValueError('generate_hash_key: start_of_compilation is assigned more than once')
    if len(re.findall(r'SystemTime::now\(\)', body)) != 1:
        raise ValueError('generate_hash_key: another SystemTime::now() besides start_of_compilation')
    pps = [x.start() for x in re.finditer(r'\.preprocess\(', body)]
    if len(pps) != 1:
        raise ValueError('generate_hash_key: expected exactly one call of compiler.preprocess(..), found %d' % len(pps))
    rec1 = re.search(r'process_preprocessed_file\((.*?)\)\?', body, re.S)
    rec2 = re.search(r'\.add_result\(\s*start_of_compilation\s*,', body)
    if not rec1 or 'start_of_compilation' not in rec1.group(1) or not rec2:
        raise ValueError('generate_hash_key: process_preprocessed_file / add_result are not called with start_of_compilation')
    if rec2.start() < rec1.start():
        raise ValueError('generate_hash_key: add_result before process_preprocessed_file')
    order = [c for _, c in sorted([(takes[0], 0), (pps[0], 1), (rec1.start(), 2)])]

    # ---- under which conditions the working directory is added to the arguments of the preprocessor-cache key ----
    # every block that encloses `preprocessor_and_arch_args.push(cwd..)` inside generate_hash_key is classified:
    # 1 = `if <storage config>.hash_working_directory`, 9 = anything else.  The list found is emitted
    # (prelude_cwd_guard); that it is [1] is a proof obligation (Proofs/PpTimeline.v prelude_cwd_guard_ok).
    pushes = [x for x in re.finditer(r'preprocessor_and_arch_args\s*\.push\(\s*cwd\b[^;]*\)\s*;', body)]
    if len(pushes) != 1:
        raise ValueError('generate_hash_key: expected exactly one preprocessor_and_arch_args.push(cwd..), found %d' % len(pushes))
    call = re.search(r'preprocessor_cache_entry_hash_key\((.*?)\)\?', body, re.S)
    if not call or '&preprocessor_and_arch_args' not in call.group(1) or call.start() < pushes[0].start():
        raise ValueError('generate_hash_key: preprocessor_cache_entry_hash_key is not called with &preprocessor_and_arch_args after the push')
    fn_open = body.index('{', body.index('-> Result<HashResult<T>>'))
    guards = []
    depth = 0
    i = pushes[0].start() - 1
    while i > fn_open:
        ch = body[i]
        if ch == '}':
            depth += 1
        elif ch == '{':
            if depth == 0:
                k = i - 1
                while k > fn_open and body[k] not in ';{}':
                    k -= 1
                hdr = ' '.join(body[k + 1:i].split())
                if re.fullmatch(r'if (storage \. preprocessor_cache_mode_config\(\) \.|storage\.preprocessor_cache_mode_config\(\)\s*\.|storage \.preprocessor_cache_mode_config\(\) \.|preprocessor_cache_mode_config\s*\.)\s*hash_working_directory',
                                hdr.replace(' .', '.').replace('. ', '.').replace('storage.preprocessor_cache_mode_config().', 'preprocessor_cache_mode_config.')):
                    guards.append(1)
                else:
                    guards.append(9)
            else:
                depth -= 1
        i -= 1

    n_res = _int_expr(_one(r'const MAX_PREPROCESSOR_CACHE_ENTRIES: usize = ([^;]+);', pp, 'MAX_PREPROCESSOR_CACHE_ENTRIES'))
    n_inc = _int_expr(_one(r'const MAX_PREPROCESSOR_CACHE_FILE_INFO_ENTRIES: usize = ([^;]+);', pp,
                           'MAX_PREPROCESSOR_CACHE_FILE_INFO_ENTRIES'))

    txt = '''(* GENERATED by translator/c04_consts.py from src/util.rs and src/compiler/preprocessor_cache.rs — do not edit. *)
From Coq Require Import List NArith.
Import ListNotations.
Local Open Scope N_scope.

Definition hash_buffer_size : N := %d.
Definition max_haystack_len : nat := %d%%nat.
Definition pat_timestamp : list N := %s.   (* %s *)
Definition pat_time : list N := %s.   (* %s *)
Definition pat_date : list N := %s.   (* %s *)
Definition max_pp_cache_entries : N := %d.
Definition max_pp_cache_file_info_entries : N := %d.
(* CACHED_ENV_VARS of preprocessor_cache.rs: %s *)
Definition pp_cached_env_vars : list (list N) := [%s].
(* generate_hash_key (c.rs): source order of  0 = `let start_of_compilation = SystemTime::now()`,
   1 = `compiler.preprocess(..)`,  2 = process_preprocessed_file(.., start_of_compilation, ..) / add_result *)
Definition prelude_order : list N := [%s].
(* generate_hash_key: the blocks enclosing `preprocessor_and_arch_args.push(cwd)`, innermost first:
   1 = `if <config>.hash_working_directory`, 9 = any other condition / block *)
Definition prelude_cwd_guard : list N := [%s].
''' % (buf, hay_len,
       _coq_bytes(flags['found_timestamp'].encode()), flags['found_timestamp'],
       _coq_bytes(flags['found_time'].encode()), flags['found_time'],
       _coq_bytes(flags['found_date'].encode()), flags['found_date'],
       n_res, n_inc, ' '.join(env_pp), ';\n  '.join(_coq_bytes(e.encode()) for e in env_pp),
       '; '.join(str(c) for c in order), '; '.join(str(g) for g in guards))
    os.makedirs(os.path.dirname(out_path), exist_ok=True)
    old = open(out_path).read() if os.path.exists(out_path) else None
    if old != txt:
        open(out_path, 'w').write(txt)
    return dict(hash_buffer_size=buf, max_haystack_len=hay_len, patterns=flags, max_results=n_res, max_includes=n_inc,
                env_pp=env_pp, prelude_order=order, prelude_cwd_guard=guards)


if __name__ == '__main__':
    import sys
    print(generate(sys.argv[1] if len(sys.argv) > 1 else '/repo',
                   os.path.join(os.path.dirname(os.path.dirname(os.path.abspath(__file__))), 'coq/theories/Gen/C04Consts.v')))
